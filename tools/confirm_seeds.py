#!/usr/bin/env python3
"""Confirm seeded changes in a scratch worktree: patch applies, workspace builds, the pinned suite still passes (754 stable),
the demonstration fails with the change and passes without it. Writes /tmp/seeded_out/<id>/confirm.json."""
import json, os, subprocess, sys, time
WT = '/tmp/wt_confirm'
OUT = os.environ.get('SEED_OUT', '/tmp/seeded_out')
env = dict(os.environ, CARGO_NET_OFFLINE='true', CARGO_TARGET_DIR=WT + '/target', VF_REPO=WT, RUST_BACKTRACE='0')

def sh(cmd, **kw):
    return subprocess.run(cmd, shell=True, stdout=subprocess.PIPE, stderr=subprocess.STDOUT, text=True, env=env, **kw)

def demo(d):
    ds = os.path.join(OUT, d, 'demo.sh')
    if not os.path.exists(ds):
        return None, 'no demo.sh'
    p = sh(f'REPO={WT} ZYDECO_BIN= bash {ds} {WT}', cwd=os.path.join(OUT, d), timeout=3000)
    return p.returncode, p.stdout[-800:]

if not os.path.isdir(WT):
    print(sh('git -C /repo worktree add -q --detach %s HEAD' % WT).stdout)
ids = sys.argv[1:] or sorted(x for x in os.listdir(OUT) if os.path.isdir(os.path.join(OUT, x)))
for d in ids:
    t0 = time.time()
    pd = os.path.join(OUT, d, 'patch.rebased.diff')
    if not os.path.exists(pd):
        pd = os.path.join(OUT, d, 'patch.diff')
    res = dict(id=d, patch=os.path.basename(pd), head=sh('git -C %s rev-parse --short HEAD' % WT).stdout.strip())
    sh(f'git -C {WT} checkout -- . && git -C {WT} clean -fdq -e target')
    a = sh(f'git -C {WT} apply {pd}')
    res['applies'] = a.returncode == 0
    if a.returncode != 0:
        res['error'] = a.stdout[-300:]
    else:
        b = sh('python3 /verif/tools/baseline.py', timeout=6000)
        res['suite_with_patch'] = b.stdout.strip().splitlines()[-1] if b.stdout.strip() else ''
        res['suite_ok'] = b.returncode == 0
        rc, out = demo(d)
        res['demo_with_patch_rc'] = rc
        res['demo_with_patch_tail'] = out[-300:]
        sh(f'git -C {WT} checkout -- . && git -C {WT} clean -fdq -e target')
        rc2, out2 = demo(d)
        res['demo_clean_rc'] = rc2
        res['demo_clean_tail'] = out2[-200:]
        res['confirmed'] = bool(res['suite_ok'] and rc not in (0, None, 2) and rc2 == 0)
    res['wall_s'] = round(time.time() - t0)
    json.dump(res, open(os.path.join(OUT, d, 'confirm.json'), 'w'), indent=1)
    print(json.dumps({k: res.get(k) for k in ('id', 'applies', 'suite_with_patch', 'demo_with_patch_rc', 'demo_clean_rc', 'confirmed', 'wall_s')}), flush=True)
