#!/bin/bash
# usage: try_many.sh <outlog> <id:prop[,prop]> ...   (patches from /tmp/seeded_out2/<id>/patch.diff)
out="$1"; shift
: > "$out"
for spec in "$@"; do
  id="${spec%%:*}"; props="${spec#*:}"
  for p in ${props//,/ }; do
    echo "=== $id $p" >> "$out"
    /verif/tools/try_seed.sh ${SEED_DIR:-/tmp/seeded_out2}/$id/patch.diff $p 2>&1 | grep -E "VIOLATION|UNDECIDED|KNOWN|HELD|VIOLATED|exit=|patch|repo not clean" | cut -c1-700 >> "$out"
  done
done
echo DONE >> "$out"
