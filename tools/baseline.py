#!/usr/bin/env python3
"""Run the repository's pinned test suite (guard off: there are no hooks) and compare with /root/.vp/BASELINE.json.
Exit 0 iff every test in stable_pass passed."""
import json, re, subprocess, sys, os
env = dict(os.environ, CARGO_NET_OFFLINE='true', NO_COLOR='1', CARGO_TERM_COLOR='never')
p = subprocess.run('cargo nextest run --workspace --no-fail-fast --offline --test-threads 8', shell=True, cwd=os.environ.get('VF_REPO', '/repo'),
                   stdout=subprocess.PIPE, stderr=subprocess.STDOUT, text=True, env=env)
passed, failed = set(), set()
for line in p.stdout.splitlines():
    m = re.match(r'\s*(PASS|FAIL|SIGABRT|SIGSEGV|TIMEOUT|LEAK)\s+\[[^\]]*\]\s+(?:\(\s*\d+/\d+\)\s+)?(\S+)\s+(\S+)', line)
    if m:
        name = m.group(2) + '::' + m.group(3)
        (passed if m.group(1) in ('PASS', 'LEAK') else failed).add(name)
base = json.load(open('/root/.vp/BASELINE.json'))
stable = set(base['stable_pass'])
missing = sorted(stable - passed)
print(f'passed={len(passed)} failed={len(failed - passed)} baseline={len(stable)} baseline_missing={len(missing)}')
for m_ in missing[:50]:
    print('MISSING', m_)
sys.exit(1 if missing else 0)
