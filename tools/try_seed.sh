#!/bin/bash
# usage: try_seed.sh <patch.diff> <property> [tier]  -- applies the patch to /repo, runs the check, always reverts
set -u
patch="$1"; prop="$2"; tier="${3:-quick}"
cd /repo || exit 9
if [ -n "$(git status --porcelain)" ]; then echo "repo not clean"; exit 9; fi
git apply "$patch" || { echo "patch does not apply"; exit 9; }
cd /verif
./check "$prop" --tier "$tier"; rc=$?
git -C /repo checkout -- . ; git -C /repo clean -fdq -- lang cli tui editor 2>/dev/null
echo "exit=$rc"
