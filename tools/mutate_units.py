#!/usr/bin/env python3
"""Contract-sensitivity self-assessment: systematic single-token mutants of the EXTRACTED function bodies inside the
generated Verus units (never of /repo), each run through Verus. A mutant is
  killed     some obligation fails,
  stillborn  the unit no longer compiles (not counted),
  survived   everything still verifies  -> either an equivalent mutant or a hole in the contract (listed for review).
Usage: tools/mutate_units.py [unit ...]   (default: all Verus units); writes /verif/selftest/mutation_<unit>.json
"""
import concurrent.futures as cf
import json
import os
import re
import sys

sys.path.insert(0, os.path.join(os.path.dirname(os.path.abspath(__file__)), '..'))
from vf import extract, verus, registry, rsscan  # noqa

VERIF = os.path.dirname(os.path.dirname(os.path.abspath(__file__)))
REPO = '/repo'
OUT = os.path.join(VERIF, 'build', 'mutants')

OPS = [
    (r'<=', '<'), (r'(?<![<>=!-])<(?![=<-])', '<='), (r'>=', '>'), (r'(?<![<>=-])>(?![=>])', '>='),
    (r'==', '!='), (r'!=', '=='),
    (r'\+= 1', '+= 2'), (r'-= 1', '-= 2'), (r'\+= 1', '-= 1'),
    (r' \+ 1\b', ' + 2'), (r' - 1\b', ' - 0'), (r' \+ ', ' - '), (r' - ', ' + '),
    (r'\b0\b', '1'), (r'\b1\b', '0'), (r'\btrue\b', 'false'), (r'\bfalse\b', 'true'),
    (r'&&', '||'), (r'\|\|', '&&'),
    (r'\bcontinue\b', '{}'), (r'\.start\b', '.end'), (r'\.end\b', '.start'),
    (r'\.is_some\(\)', '.is_none()'), (r'\.is_none\(\)', '.is_some()'),
    (r'/ 2\b', '/ 3'), (r'> 0\b', '> 1'), (r'== 0\b', '== 1'),
    (r'wrapping_add', 'wrapping_sub'), (r'wrapping_sub', 'wrapping_add'), (r'wrapping_mul', 'wrapping_add'),
    (r'\bSome\(\(range\.start, tok, range\.end\)\)', 'None'),
    (r'\bIntegerType::Int8\b', 'IntegerType::UInt8'), (r'\bIntegerType::UInt8\b', 'IntegerType::Int8'), (r'\bIntegerType::Int16\b', 'IntegerType::Int32'),
    (r'\bIntegerType::Int64\b', 'IntegerType::UInt64'), (r'\bIntegerType::UInt32\b', 'IntegerType::UInt16'),
    (r'=> 2\b', '=> 3'), (r'=> 4\b', '=> 3'), (r'=> 1\b', '=> 2'),
    (r'\bSelf::Eq \| ', ''), (r' \| Self::Gt\b', ''), (r'\bSelf::Add \| ', ''),
    (r'as u8 as u64', 'as u64'), (r'as u16 as u64', 'as u64'), (r'as u32 as u64', 'as u64'),
    (r'\.ok\(\)\?', '.ok().or(Some(0))?'),
    (r'\bio_close_reader\(', 'io_close_writer('), (r'\bstr_get_branch\(', 'str_eq_branch('), (r'\binteger_branch\(', 'integer_arithmetic('), (r'\bstdout\(', 'stderr('),
    (r'\bfloat_to_string\(float,', 'float_to_string(zydeco_syntax::FloatType::Float64,'), (r'\| IntegerOperation::Mod => integer_arithmetic', '| IntegerOperation::Mod => integer_branch'),
    (r'when_true \} else \{ when_false', 'when_false } else { when_true'), (r'\(when_none\.clone', '(when_some.clone'), (r'Literal::String\(first\)', 'Literal::String(second.clone())'),
    (r'\.and_then\(char::from_u32\)', '.map(|c| char::from_u32(c).unwrap_or(\'?\'))'), (r'string\.scalar\(index\)', 'string.scalar(index + 1)'), (r'split_at_scalar\(index\)', 'split_at_scalar(index + 1)'),
    (r'Self::one\(continuation, first\)', 'Self::one(continuation, second.clone())'), (r'=> Self::Closed', '=> Self::Other'), (r'ErrorKind::NotConnected', 'ErrorKind::NotFound'),
    (r'HostContinuation::force\(when_success\)', 'HostContinuation::force(when_error)'), (r'io_error\(when_error,', 'io_error(when_success,'),
    (r'force\(when_eof\)', 'force(when_line)'), (r'Ok\(\(0, _\)\)', 'Ok((1, _))'), (r"b'\\n'", "b'\\r'"), (r'one\(when_line,', 'one(when_eof,'),
    (r'WriterHandle::STDOUT \| WriterHandle::STDERR', 'WriterHandle::STDOUT'), (r'\.create_writer\(', '.append_writer('), (r'\.append_writer\(', '.create_writer('),
    (r'HostValue::Reader\(handle\)', 'HostValue::Reader(ReaderHandle::STDIN)'), (r'operation\(output\)', 'operation(host.writer(handle)?)'), (r'operation\(input\)', 'operation(host.reader(handle)?)'),
    (r'host\.close_writer\(\*writer\)', 'host.close_writer(WriterHandle::STDERR)'), (r'one\(when_success, capability\)', 'one(when_error, capability)'),
    (r'\*\$second', '*$first'), (r'\$first\.', '$second.'),
    (r'IntegerLiteral::\$variant\(result\)', 'IntegerLiteral::$variant(*$first)'),
]


def code_regions(unit_text, items):
    """Byte ranges of extracted function BODIES in the generated unit (the extractor brackets them with marker comments)."""
    regions = []
    for m in re.finditer(r'/\*@@BODY (\w+)\*/', unit_text):
        e = unit_text.find('/*@@END*/', m.end())
        if e > 0:
            regions.append((m.group(1), m.end(), e))
    return regions


def spec_lines(unit_text, a, b):
    """Offsets inside [a,b) that belong to spliced loop clauses (invariant/ensures/decreases blocks) -> excluded."""
    text = unit_text[a:b]
    excl = []
    for m in re.finditer(r'(?m)^\s*(invariant(_except_break)?|ensures|decreases)\b', text):
        # clause block extends to the next line starting with `{`
        e = text.find('\n{', m.start())
        if e < 0:
            e = m.end()
        excl.append((a + m.start(), a + e))
    return excl


def mutants_for(unit_text, regions):
    out = []
    msk = rsscan.mask(unit_text)
    for (fn, a, b) in regions:
        excl = spec_lines(unit_text, a, b)
        for (pat, rep) in OPS:
            for m in re.finditer(pat, msk[a:b]):
                s, e = a + m.start(), a + m.end()
                if any(x <= s < y for x, y in excl):
                    continue
                line_start = unit_text.rfind('\n', 0, s) + 1
                line_end = unit_text.find('\n', s)
                line = unit_text[line_start:line_end]
                if re.match(r'\s*//', line) or 'proof {' in line or line.strip().startswith('assert'):
                    continue
                out.append(dict(fn=fn, pos=s, old=unit_text[s:e], new=rep, line=line.strip(), text=unit_text[:s] + rep + unit_text[e:]))
    return out


def run_unit(uname):
    ucfg = registry.UNITS[uname]
    tpl = open(os.path.join(VERIF, 'units', uname, ucfg.get('template', 'unit.rs.tpl'))).read()
    text, ex = extract.build_unit(REPO, tpl)
    regions = code_regions(text, ex.items)
    muts = mutants_for(text, regions)
    os.makedirs(OUT, exist_ok=True)
    res = []

    def one(i_m):
        i, m = i_m
        p = os.path.join(OUT, f'{uname}__m{i}.rs')
        open(p, 'w').write(m['text'])
        r = verus.run(p, rlimit=ucfg.get('rlimit', 30), threads=2, timeout=300)
        try:
            os.remove(p)
        except OSError:
            pass
        if r['compile_errors'] or r['verified'] is None:
            st = 'stillborn'
        elif r['diags']:
            st = 'killed'
        else:
            st = 'survived'
        labs = sorted({d.get('label') or d['kind'] for d in r['diags']})
        return dict(fn=m['fn'], line=m['line'], old=m['old'], new=m['new'], status=st, failed=labs[:6])
    with cf.ThreadPoolExecutor(max_workers=8) as pool:
        res = list(pool.map(one, enumerate(muts)))
    summary = dict(unit=uname, mutants=len(res), killed=sum(r['status'] == 'killed' for r in res), stillborn=sum(r['status'] == 'stillborn' for r in res),
                   survived=[r for r in res if r['status'] == 'survived'], functions=sorted({r[0] for r in regions}))
    os.makedirs(os.path.join(VERIF, 'selftest'), exist_ok=True)
    json.dump(dict(summary=summary, all=res), open(os.path.join(VERIF, 'selftest', f'mutation_{uname}.json'), 'w'), indent=1)
    return summary


def run_kani_unit(uname, max_mutants=60):
    import subprocess, shutil, time
    from vf import kani
    ucfg = registry.UNITS[uname]
    dst, items, rewrites = kani._prepare(uname, ucfg, REPO, VERIF, os.path.join(VERIF, 'build'))
    allh = dict(ucfg['harnesses'])
    if ucfg.get('use_generated_harnesses', True):
        allh.update(getattr(kani._prepare, 'generated', {}) or {})
    declared = [h for h, c in allh.items() if c.get('tier', 'quick') == 'quick' and not (os.environ.get('MUT_SKIP_ROLES') and h.startswith('roles::'))]
    files = [os.path.join(dst, 'src', f) for f in os.listdir(os.path.join(dst, 'src')) if f.endswith('.rs')]
    muts = []
    for fp in files:
        text = open(fp).read()
        regs = code_regions(text, [])
        if regs:
            for m in mutants_for(text, regs):
                m['file'] = fp
                muts.append(m)
    only = ucfg.get('mutate_functions')
    if only:
        muts = [m for m in muts if m['fn'] in only]
    cap = int(os.environ.get('MUT_PER_FN', '0'))
    if cap:
        seen_fn = {}
        kept = []
        for m in muts:
            seen_fn[m['fn']] = seen_fn.get(m['fn'], 0) + 1
            if seen_fn[m['fn']] <= cap:
                kept.append(m)
        muts = kept
    muts = muts[:int(os.environ.get('MUT_MAX', max_mutants))]
    tdir = os.path.join(VERIF, 'build', 'kani-target', ucfg.get('target_key', uname))
    flags = ucfg.get('flags', [])
    env = dict(os.environ, CARGO_NET_OFFLINE='true', CARGO_TERM_COLOR='never', RUST_BACKTRACE='0')
    res = []
    for i, m in enumerate(muts):
        orig = open(m['file']).read()
        open(m['file'], 'w').write(m['text'])
        jpath = os.path.join(OUT, f'{uname}_m{i}.json')
        os.makedirs(OUT, exist_ok=True)
        cmd = ['cargo', 'kani'] + flags + ['-Z', 'unstable-options', '--target-dir', tdir, '-j', '14', '--output-format', 'terse', '--harness-timeout', os.environ.get('MUT_HARNESS_TIMEOUT', '120'),
               '--export-json', jpath, '--exact']
        for h in declared:
            cmd += ['--harness', h]
        try:
            p = subprocess.run(cmd, cwd=dst, env=env, stdout=subprocess.PIPE, stderr=subprocess.STDOUT, text=True, timeout=1500)
            out = p.stdout
        except subprocess.TimeoutExpired:
            out = '<<timeout>>'
        open(m['file'], 'w').write(orig)
        kani._reap_solvers()
        if 'could not compile' in out or 'error[E' in out:
            st, failed = 'stillborn', []
        else:
            jr = kani.parse_json(jpath)
            failed = sorted(h.split('::')[-1] for h, r in jr.items() if r['status'] == 'failure')
            st = 'killed' if failed else 'survived'
        res.append(dict(fn=m['fn'], line=m['line'], old=m['old'], new=m['new'], status=st, failed=failed[:6]))
        print(f"  [{i+1}/{len(muts)}] {m['fn']}: `{m['old']}`->`{m['new']}` {st} {failed[:3]}", flush=True)
    summary = dict(unit=uname, mutants=len(res), killed=sum(r['status'] == 'killed' for r in res), stillborn=sum(r['status'] == 'stillborn' for r in res),
                   survived=[r for r in res if r['status'] == 'survived'], functions=sorted({m['fn'] for m in muts}), harnesses_run=len(declared))
    os.makedirs(os.path.join(VERIF, 'selftest'), exist_ok=True)
    json.dump(dict(summary=summary, all=res), open(os.path.join(VERIF, 'selftest', f'mutation_{uname}.json'), 'w'), indent=1)
    return summary


if __name__ == '__main__':
    units = sys.argv[1:] or [u for u, c in registry.UNITS.items() if c['backend'] == 'verus']
    for u in units:
        s = run_kani_unit(u) if registry.UNITS[u]['backend'] == 'kani' else run_unit(u)
        print(f"{u}: {s['mutants']} mutants, {s['killed']} killed, {s['stillborn']} stillborn, {len(s['survived'])} survived   (functions: {', '.join(s['functions'])})")
        for r in s['survived']:
            print(f"   SURVIVED {r['fn']}: `{r['old']}` -> `{r['new']}` in: {r['line'][:110]}")
