//! C10: dynamic evaluation of the front-end leaf contracts on the REAL parser pipeline
//! (FileInfo::new + Lexer + SourceUnitParser + ParseError rendering), under catch_unwind.
use crate::json::esc;
use std::sync::Arc;
use zydeco_surface::textual::{Lexer, ParseError, SourceUnitParser, syntax::Parser};
use zydeco_utils::span::{FileInfo, LocationCtx};

pub enum Front {
    Accepted,
    Rejected(String),
    Panicked(String),
}

pub fn parse(source: &str) -> Front {
    let r = std::panic::catch_unwind(|| {
        let info = FileInfo::new(source, Some(Arc::new(std::path::PathBuf::from("w.zy"))));
        let location = LocationCtx::File(info.clone());
        let mut parser = Parser::new();
        match SourceUnitParser::new().parse(source, &location, &mut parser, Lexer::new(source)) {
            | Ok(_) => Ok(()),
            | Err(error) => {
                let e = ParseError { error, file_info: &info };
                let _ = e.to_report();
                Err(e.to_string())
            }
        }
    });
    match r {
        | Ok(Ok(())) => Front::Accepted,
        | Ok(Err(m)) => Front::Rejected(m),
        | Err(e) => Front::Panicked(
            e.downcast_ref::<String>().cloned().or_else(|| e.downcast_ref::<&str>().map(|s| s.to_string())).unwrap_or_default(),
        ),
    }
}

/// independent line/column computation: line = number of '\n' before offset, column = bytes since the last one
fn line_col(src: &str, offset: usize) -> (usize, usize) {
    let b = src.as_bytes();
    let mut line = 0;
    let mut start = 0;
    for (i, c) in b.iter().enumerate().take(offset) {
        if *c == b'\n' {
            line += 1;
            start = i + 1;
        }
    }
    (line, offset - start)
}

/// Err((clause, detail)) if a leaf contract is broken on `src`.
pub fn check_source(src: &str) -> Result<(), (&'static str, String)> {
    if let Front::Panicked(m) = parse(src) {
        return Err(("panic-unreachable", format!("front end panicked: {m}")));
    }
    let info = FileInfo::new(src, None);
    for off in 0..=src.len() {
        let r = std::panic::catch_unwind(|| info.trans_span2(off));
        match r {
            | Ok(c) => {
                let (l, col) = line_col(src, off);
                if c.line != l || c.column != col {
                    return Err(("SPAN-INSIDE", format!("trans_span2({off}) = {}:{} (0-based), expected {l}:{col}", c.line, c.column)));
                }
            }
            | Err(_) => return Err(("panic-unreachable", format!("trans_span2({off}) panicked on a {}-byte file", src.len()))),
        }
    }
    Ok(())
}

fn candidates(max_pieces: usize) -> Vec<String> {
    let mut lits: Vec<String> = Vec::new();
    for n in [1usize, 2, 18, 19, 20, 21, 38, 39, 40, 41, 60] {
        for d in ["9", "1", "0"] {
            for sign in ["", "-", "+"] {
                lits.push(format!("{sign}{}", d.repeat(n)));
            }
        }
    }
    for s in ["170141183460469231731687303715884105727", "170141183460469231731687303715884105728", "-170141183460469231731687303715884105728",
        "-170141183460469231731687303715884105729", "9223372036854775807", "9223372036854775808", "-9223372036854775808", "-9223372036854775809",
        "18446744073709551615", "18446744073709551616"] {
        lits.push(s.into());
    }
    for s in ["1e999", "-1e999", "1.0e-999", "0.0", "1.5", "1e+5", "1E-5", "123456789012345678901234567890.123456789012345678901234567890e300",
        "0.00000000000000000000000000000000000000000000000000000000000001", "1e0", "9.9e99999999999999999999", "+1.0", "-0.0e-0"] {
        lits.push(s.into());
    }
    for s in [r#""""#, r#""a""#, r#""\\""#, r#""\"""#, r#""\q""#, r#""\n\r\t""#, "\"\u{e9}\u{1f600}\"", r#""\"#, r#""abc"#, r#""a\"#, "\"a\nb\"",
        "'a'", r"'\n'", r"'\''", r"'\\'", r"'\|'", r"'\('", r"'\)'", "'", "''", r"'\'", r"'\q'", "'\u{e9}'"] {
        lits.push(s.into());
    }
    let mut out = Vec::new();
    // long tokens with multi-byte characters at every offset around plausible truncation limits, in error positions
    // (diagnostics quote or abbreviate the offending token)
    for pad in (14..=66).step_by(1) {
        let body = format!("{}{}", "a".repeat(pad), "\u{e9}\u{20ac}\u{1f600}");
        for long in [format!("\"{body}\""), format!("-- {body}"), format!("--| {body}"), body.clone(), format!("+{body}"), format!(".{body}")] {
            out.push(format!("fn {long} => 1"));
            out.push(format!("ret 1 {long} )"));
        }
    }
    for l in &lits {
        out.push(format!("ret {l}"));
        out.push(format!("@[import({l})] _"));
        out.push(format!("@[x({l},{l})] ret {l}"));
        out.push(l.clone());
        out.push(format!("ret {l}\n\n  {l}\n"));
    }
    // all concatenations of up to max_pieces lexer-alphabet pieces (lexical irregularities)
    const A: &[&str] = &["-", "/", "a", " ", "\n", "\"", "#", "(", ")", "'", "\\", "1", "|", "-/", "/-", "--", ".", "e", "+", "@", "[", "]"];
    let mut idx: Vec<usize> = Vec::new();
    for len in 0..=max_pieces {
        idx.clear();
        idx.resize(len, 0);
        loop {
            out.push(idx.iter().map(|&i| A[i]).collect());
            let mut k = len;
            let mut done = len == 0;
            while k > 0 {
                k -= 1;
                idx[k] += 1;
                if idx[k] < A.len() { break; }
                idx[k] = 0;
                if k == 0 { done = true; }
            }
            if done { break; }
        }
    }
    out
}

pub fn witness(args: &[String]) -> i32 {
    std::panic::set_hook(Box::new(|_| {}));
    let max: usize = args.first().and_then(|s| s.parse().ok()).unwrap_or(3);
    let mut n = 0u64;
    for s in candidates(max) {
        n += 1;
        if let Err((clause, detail)) = check_source(&s) {
            println!("{{\"found\":true,\"tried\":{n},\"input\":{},\"clause\":{},\"detail\":{}}}", esc(&s), esc(clause), esc(&detail));
            return 1;
        }
    }
    println!("{{\"found\":false,\"tried\":{n}}}");
    0
}

pub fn replay(args: &[String]) -> i32 {
    std::panic::set_hook(Box::new(|_| {}));
    let src = args.first().map(|s| s.as_str()).unwrap_or("");
    match check_source(src) {
        | Err((clause, detail)) => {
            println!("{{\"fails\":true,\"input\":{},\"clause\":{},\"detail\":{}}}", esc(src), esc(clause), esc(&detail));
            1
        }
        | Ok(()) => {
            println!("{{\"fails\":false,\"input\":{}}}", esc(src));
            0
        }
    }
}

/// Literal token language (C05 anchor "literal token forms"): every string of the documented literal grammar
///   float: [+-]? digits '.' digits ([eE] [+-]? digits)?  |  [+-]? digits [eE] [+-]? digits        int: [+-]? digits
/// (recognised here by a hand-written matcher, independent of the lexer's regexes) must lex as exactly ONE token of that
/// kind spanning the whole string. All strings over {+,-,0,1,9,.,e,E} up to 7 characters.
pub fn literal_tokens(_args: &[String]) -> i32 {
    use logos::Logos;
    use zydeco_surface::textual::Tok;
    fn digits(b: &[u8], mut i: usize) -> Option<usize> { let s = i; while i < b.len() && b[i].is_ascii_digit() { i += 1; } if i > s { Some(i) } else { None } }
    fn classify(b: &[u8]) -> u8 {
        // 0 = neither, 1 = int, 2 = float
        let mut i = 0;
        if i < b.len() && (b[i] == b'+' || b[i] == b'-') { i += 1; }
        let Some(j) = digits(b, i) else { return 0 };
        if j == b.len() { return 1; }
        let mut k = j;
        let mut frac = false;
        if b[k] == b'.' { let Some(m) = digits(b, k + 1) else { return 0 }; k = m; frac = true; if k == b.len() { return 2; } }
        if b[k] == b'e' || b[k] == b'E' {
            k += 1;
            if k < b.len() && (b[k] == b'+' || b[k] == b'-') { k += 1; }
            let Some(m) = digits(b, k) else { return 0 };
            if m == b.len() { return 2; }
        }
        let _ = frac;
        0
    }
    const A: &[u8] = b"+-019.eE";
    let mut n = 0u64;
    let mut buf: Vec<u8> = Vec::new();
    for len in 1..=7usize {
        let total = A.len().pow(len as u32);
        for mut code in 0..total {
            buf.clear();
            for _ in 0..len { buf.push(A[code % A.len()]); code /= A.len(); }
            let kind = classify(&buf);
            if kind == 0 { continue; }
            let s = std::str::from_utf8(&buf).unwrap();
            n += 1;
            let toks: Vec<_> = Tok::lexer(s).spanned().collect();
            let ok = toks.len() == 1 && toks[0].1 == (0..s.len()) && match (&toks[0].0, kind) {
                | (Ok(Tok::IntLit(t)), 1) => *t == s,
                | (Ok(Tok::FloatLit(t)), 2) => *t == s,
                | _ => false,
            };
            if !ok {
                let detail = format!("`{s}` is a {} literal of the documented grammar but lexes as {:?}", if kind == 1 { "integer" } else { "decimal" }, toks.iter().map(|(t, r)| format!("{:?}@{:?}", t, r)).collect::<Vec<_>>());
                println!("{{\"found\":true,\"tried\":{n},\"input\":{},\"clause\":\"LITERAL-TOKEN\",\"detail\":{}}}", esc(s), esc(&detail));
                return 1;
            }
        }
    }
    println!("{{\"found\":false,\"tried\":{n}}}");
    0
}

/// Assumption A3: every string of the lexer's FloatLit rule parses as f64. Enumerates all strings over
/// {+,-,0,1,9,.,e,E} up to 7 characters, keeps those the REAL lexer classifies as a single FloatLit, and parses them.
pub fn assumption_a3(_args: &[String]) -> i32 {
    use logos::Logos;
    use zydeco_surface::textual::Tok;
    const A: &[u8] = b"+-019.eE";
    let mut n = 0u64;
    let mut floats = 0u64;
    let mut buf: Vec<u8> = Vec::new();
    for len in 1..=7usize {
        let total = A.len().pow(len as u32);
        for mut code in 0..total {
            buf.clear();
            for _ in 0..len { buf.push(A[code % A.len()]); code /= A.len(); }
            let s = std::str::from_utf8(&buf).unwrap();
            n += 1;
            let toks: Vec<_> = Tok::lexer(s).collect();
            if toks.len() == 1 {
                if let Ok(Tok::FloatLit(t)) = &toks[0] {
                    floats += 1;
                    if t.parse::<f64>().is_err() {
                        println!("{{\"holds\":false,\"tried\":{n},\"input\":{}}}", esc(s));
                        return 1;
                    }
                }
            }
        }
    }
    for s in ["1e99999999999999999999999", "1.0e-99999999999999999999", "000000000000000000000000000000000.000000000000000000000000000000001E+000000000000000000000001"] {
        n += 1;
        if let Some(Ok(Tok::FloatLit(t))) = Tok::lexer(s).next() { floats += 1; if t.parse::<f64>().is_err() { println!("{{\"holds\":false,\"tried\":{n},\"input\":{}}}", esc(s)); return 1; } }
    }
    println!("{{\"holds\":true,\"tried\":{n},\"float_lits\":{floats}}}");
    0
}

/// Packed span cursors on the real code: `Span::new(l, r).under_loc_ctx(File(..)).to_string()` must print the true
/// 1-based line:column of both ends when they fit the 18/14-bit budget and fall back to byte offsets otherwise; never panic.
pub fn span_witness(_args: &[String]) -> i32 {
    use zydeco_utils::span::Span;
    std::panic::set_hook(Box::new(|_| {}));
    let lines_max: usize = (1 << 18) + 2;
    // a file with `lines_max` lines, each "ab\n" except one very long line 5 (for the column budget)
    let mut text = String::new();
    let mut starts: Vec<usize> = Vec::new();
    for i in 0..lines_max {
        starts.push(text.len());
        if i == 5 { text.push_str(&"x".repeat((1 << 14) + 3)); } else { text.push_str("ab"); }
        text.push('\n');
    }
    let info = FileInfo::new(&text, Some(Arc::new(std::path::PathBuf::from("w.zy"))));
    let ctx = LocationCtx::File(info);
    let mut n = 0u64;
    let line_cands = [0usize, 1, 4, 5, 6, (1 << 18) - 3, (1 << 18) - 2, (1 << 18) - 1, 1 << 18, (1 << 18) + 1];
    for &l1 in &line_cands {
        for &c1 in &[0usize, 1, 2, (1 << 14) - 1, 1 << 14, (1 << 14) + 1] {
            let len1 = if l1 == 5 { (1 << 14) + 3 } else { 2 };
            if c1 > len1 { continue; }
            for &(l2, c2) in &[(l1, c1), (l1, len1), (lines_max - 1, 1usize), (1usize << 18, 1usize), ((1usize << 18) - 1, 2usize), ((1usize << 18) - 2, 2usize)] {
                let (a, b) = (starts[l1] + c1, starts[l2] + c2);
                if b < a { continue; }
                n += 1;
                let fits = |l: usize, c: usize| l + 1 <= (1 << 18) - 1 && c <= (1 << 14) - 1;
                let want = if fits(l1, c1) && fits(l2, c2) { format!("w.zy:{}:{} - {}:{}", l1 + 1, c1 + 1, l2 + 1, c2 + 1) } else { format!("w.zy:{a}-{b}") };
                let got = std::panic::catch_unwind(|| Span::new(a, b).under_loc_ctx(&ctx).to_string());
                let bad = match &got { Ok(s) => s != &want, Err(_) => true };
                if bad {
                    let input = format!("{l1}:{c1}-{l2}:{c2}");
                    let detail = match got { Ok(s) => format!("span printed as `{s}`, expected `{want}`"), Err(_) => format!("rendering the span panicked (expected `{want}`)") };
                    println!("{{\"found\":true,\"tried\":{n},\"input\":{},\"clause\":\"COMPACT-ROUNDTRIP\",\"detail\":{}}}", esc(&input), esc(&detail));
                    return 1;
                }
            }
        }
    }
    println!("{{\"found\":false,\"tried\":{n}}}");
    0
}
