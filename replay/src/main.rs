//! Native replay / witness-search binary: links the REAL crates from /repo's working tree and evaluates
//! the contracts of /verif/units dynamically on concrete inputs. It never decides a property: it only
//! (a) exhibits a concrete failing input for an obligation the verifier failed to discharge, and
//! (b) checks, on every run, the stated assumptions about external code (logos) on enumerated inputs.
mod lexer;
mod host;
mod roles;
mod front;
mod numeric;
mod json;

fn main() {
    let args: Vec<String> = std::env::args().collect();
    let cmd = args.get(1).map(|s| s.as_str()).unwrap_or("");
    let rest = &args[2.min(args.len())..];
    let code = match cmd {
        | "lexer-a1" => lexer::assumption_a1(rest),
        | "lexer-witness" => lexer::witness(rest),
        | "lexer-replay" => lexer::replay(rest),
        | "front-witness" => front::witness(rest),
        | "front-replay" => front::replay(rest),
        | "span-witness" => front::span_witness(rest),
        | "literal-tokens" => front::literal_tokens(rest),
        | "front-a3" => front::assumption_a3(rest),
        | "host-witness" => host::witness(rest),
        | "roles-witness" => roles::witness(rest),
        | "roles-replay" => roles::replay(rest),
        | "numeric-witness" => numeric::witness(rest),
        | "numeric-replay" => numeric::replay(rest),
        | _ => {
            eprintln!("usage: vf-replay <lexer-a1|lexer-witness|lexer-replay> ...");
            2
        }
    };
    std::process::exit(code);
}
