//! C06 handle table: multi-step histories through the REAL interpreter and the real file system (temporary files):
//! "closed handles stay closed", "issued handles are fresh", "a closed handle reports the Closed error (kind 6)".
use crate::json::esc;
use std::rc::Rc;
use zydeco_dynamics::host::HostValue;
use zydeco_dynamics::syntax::*;
use zydeco_dynamics::{ProgKont, Runtime};
use zydeco_utils::arena::{KeySpaceId, derived_id};

fn lit(v: i64) -> Value { Value::Lit(Literal::Integer(IntegerLiteral::Int64(v))) }
fn s(v: &str) -> Value { Value::Lit(Literal::String(v.into())) }
fn bytes(b: &[u8]) -> Value { Value::SemValue(SemValue::Host(HostValue::Bytes(b.to_vec().into()))) }
fn prim(role: BuiltinValueRole) -> Computation { Computation::Prim(Prim { arity: role.arity() as u64, role }) }
fn app(c: Computation, v: Value) -> Computation { Computation::VApp(App(Rc::new(c), Rc::new(v))) }
fn call(role: BuiltinValueRole, args: Vec<Value>) -> Computation { args.into_iter().fold(prim(role), app) }
fn lam(x: DefId, body: Computation) -> Computation { Computation::VAbs(Abs(Rc::new(ValuePattern::Var(x)), Rc::new(body))) }
fn thunk(c: Computation) -> Value { Value::Thunk(Thunk(Rc::new(c))) }
fn ret(v: Value) -> Computation { Computation::Ret(Return(Rc::new(v))) }

struct B { ks: KeySpaceId, next: u32 }
impl B {
    fn fresh(&mut self) -> DefId { self.next += 1; derived_id(self.ks, self.next) }
    /// error continuation that ends the run with a fixed marker (an error nobody expects at this step)
    fn err_marker(&mut self, m: i64) -> Value { let (k, g) = (self.fresh(), self.fresh()); thunk(lam(k, lam(g, ret(lit(m))))) }
    /// error continuation that ends the run with the error KIND it was given
    fn err_kind(&mut self) -> Value { let (k, g) = (self.fresh(), self.fresh()); thunk(lam(k, lam(g, ret(Value::Var(k))))) }
}

fn run(c: Computation) -> Result<i64, String> {
    let r = std::panic::catch_unwind(std::panic::AssertUnwindSafe(|| {
        let mut input = std::io::Cursor::new(Vec::<u8>::new());
        let mut out: Vec<u8> = Vec::new();
        let program = DynamicsProgram { defs: Default::default(), root: Rc::new(c) };
        let mut rt = Runtime::new(&mut input, &mut out, &[], program);
        rt.run()
    }));
    match r {
        | Ok(ProgKont::Ret(SemValue::Literal(Literal::Integer(IntegerLiteral::Int64(v))))) => Ok(v),
        | Ok(ProgKont::Ret(v)) => Err(format!("returned {v:?}")),
        | Ok(ProgKont::ExitCode(c)) => Err(format!("exit {c}")),
        | Ok(ProgKont::Dry) => Err("dry".into()),
        | Err(_) => Err("interpreter panicked".into()),
    }
}

const CLOSED: i64 = 6;
const OK_MARK: i64 = 999;

/// the histories; each must end with the stated value
fn histories(dir: &str) -> Vec<(&'static str, Computation, i64)> {
    use BuiltinValueRole as R;
    let p1 = format!("{dir}/h1.txt");
    let p2 = format!("{dir}/h2.txt");
    std::fs::write(&p1, b"one").ok();
    std::fs::write(&p2, b"two").ok();
    let mut b = B { ks: KeySpaceId::derive(0x7666, 1, 1, 0), next: 0 };
    let mut v: Vec<(&'static str, Computation, i64)> = Vec::new();

    // W1: create w1; close w1; create w2; write through w1  => Closed
    let (w1, w2) = (b.fresh(), b.fresh());
    let step4 = call(R::IoWriteAll, vec![Value::Var(w1), bytes(b"x"), b.err_kind(), thunk(ret(lit(OK_MARK)))]);
    let step3 = call(R::FsCreateWriter, vec![s(&p2), b.err_marker(-3), thunk(lam(w2, step4))]);
    let step2 = call(R::IoCloseWriter, vec![Value::Var(w1), b.err_marker(-2), thunk(step3)]);
    v.push(("create w1; close w1; create w2; write through the CLOSED w1", call(R::FsCreateWriter, vec![s(&p1), b.err_marker(-1), thunk(lam(w1, step2))]), CLOSED));

    // R1: open r1; close r1; open r2; read through r1 => Closed
    let (r1, r2, got) = (b.fresh(), b.fresh(), b.fresh());
    let step4 = call(R::IoReadAll, vec![Value::Var(r1), b.err_kind(), thunk(lam(got, ret(lit(OK_MARK))))]);
    let step3 = call(R::FsOpenReader, vec![s(&p2), b.err_marker(-3), thunk(lam(r2, step4))]);
    let step2 = call(R::IoCloseReader, vec![Value::Var(r1), b.err_marker(-2), thunk(step3)]);
    v.push(("open r1; close r1; open r2; read through the CLOSED r1", call(R::FsOpenReader, vec![s(&p1), b.err_marker(-1), thunk(lam(r1, step2))]), CLOSED));

    // R2: open r1; close r1; close r1 again => Closed
    let r1 = b.fresh();
    let step3 = call(R::IoCloseReader, vec![Value::Var(r1), b.err_kind(), thunk(ret(lit(OK_MARK)))]);
    let step2 = call(R::IoCloseReader, vec![Value::Var(r1), b.err_marker(-2), thunk(step3)]);
    v.push(("open r1; close r1; close r1 again", call(R::FsOpenReader, vec![s(&p1), b.err_marker(-1), thunk(lam(r1, step2))]), CLOSED));

    // W2: create w1; close w1; flush w1 => Closed
    let w1 = b.fresh();
    let step3 = call(R::IoFlush, vec![Value::Var(w1), b.err_kind(), thunk(ret(lit(OK_MARK)))]);
    let step2 = call(R::IoCloseWriter, vec![Value::Var(w1), b.err_marker(-2), thunk(step3)]);
    v.push(("create w1; close w1; flush the CLOSED w1", call(R::FsCreateWriter, vec![s(&p1), b.err_marker(-1), thunk(lam(w1, step2))]), CLOSED));

    // R3: open r1; open r2; close r1; read r2 still works; then read r1 => Closed
    let (r1, r2, g1) = (b.fresh(), b.fresh(), b.fresh());
    let step5 = call(R::IoReadAll, vec![Value::Var(r1), b.err_kind(), thunk(lam(b.fresh(), ret(lit(OK_MARK))))]);
    let step4 = call(R::IoReadAll, vec![Value::Var(r2), b.err_marker(-4), thunk(lam(g1, step5))]);
    let step3 = call(R::IoCloseReader, vec![Value::Var(r1), b.err_marker(-3), thunk(step4)]);
    let step2 = call(R::FsOpenReader, vec![s(&p2), b.err_marker(-2), thunk(lam(r2, step3))]);
    v.push(("open r1; open r2; close r1; read r2 (works); read the CLOSED r1", call(R::FsOpenReader, vec![s(&p1), b.err_marker(-1), thunk(lam(r1, step2))]), CLOSED));

    // W3: an open handle keeps working after another one was opened and closed: create w1; create w2; close w2; write w1 => OK
    let (w1, w2) = (b.fresh(), b.fresh());
    let step4 = call(R::IoWriteAll, vec![Value::Var(w1), bytes(b"x"), b.err_marker(-4), thunk(ret(lit(OK_MARK)))]);
    let step3 = call(R::IoCloseWriter, vec![Value::Var(w2), b.err_marker(-3), thunk(step4)]);
    let step2 = call(R::FsCreateWriter, vec![s(&p2), b.err_marker(-2), thunk(lam(w2, step3))]);
    v.push(("create w1; create w2; close w2; write through the OPEN w1", call(R::FsCreateWriter, vec![s(&p1), b.err_marker(-1), thunk(lam(w1, step2))]), OK_MARK));

    // T1: `create` means create-or-TRUNCATE: write a long text, close, create again, write a short one, close -> only the short one
    let p3 = format!("{dir}/h3.txt");
    std::fs::remove_file(&p3).ok();
    let (w1, w2) = (b.fresh(), b.fresh());
    let step6 = call(R::IoCloseWriter, vec![Value::Var(w2), b.err_marker(-6), thunk(ret(lit(OK_MARK)))]);
    let step5 = call(R::IoWriteAll, vec![Value::Var(w2), bytes(b"short"), b.err_marker(-5), thunk(step6)]);
    let step4 = call(R::FsCreateWriter, vec![s(&p3), b.err_marker(-4), thunk(lam(w2, step5))]);
    let step3 = call(R::IoCloseWriter, vec![Value::Var(w1), b.err_marker(-3), thunk(step4)]);
    let step2 = call(R::IoWriteAll, vec![Value::Var(w1), bytes(b"a long first version"), b.err_marker(-2), thunk(step3)]);
    v.push(("create f; write long; close; create f again; write short; close  (file must hold only the short text)", call(R::FsCreateWriter, vec![s(&p3), b.err_marker(-1), thunk(lam(w1, step2))]), OK_MARK));

    // A1: `append` never truncates: after the history above, append "+x" -> "short+x"
    let w1 = b.fresh();
    let step3 = call(R::IoCloseWriter, vec![Value::Var(w1), b.err_marker(-3), thunk(ret(lit(OK_MARK)))]);
    let step2 = call(R::IoWriteAll, vec![Value::Var(w1), bytes(b"+x"), b.err_marker(-2), thunk(step3)]);
    v.push(("append to f; write; close  (file must hold short+x)", call(R::FsAppendWriter, vec![s(&p3), b.err_marker(-1), thunk(lam(w1, step2))]), OK_MARK));

    // F1: opening a missing file reports NotFound (kind 0) through the error continuation
    v.push(("open a missing file", call(R::FsOpenReader, vec![s(&format!("{dir}/missing/none")), b.err_kind(), thunk(lam(b.fresh(), ret(lit(OK_MARK))))]), 0));
    v
}

pub fn witness(args: &[String]) -> i32 {
    std::panic::set_hook(Box::new(|_| {}));
    let dir = args.first().cloned().unwrap_or_else(|| std::env::temp_dir().to_string_lossy().into_owned());
    std::fs::create_dir_all(&dir).ok();
    let only = args.get(1).cloned();
    let mut n = 0;
    for (name, c, want) in histories(&dir) {
        if let Some(o) = &only { if o != name { continue; } }
        n += 1;
        let mut got = run(c);
        // file-content postconditions of the two mode histories
        if got == Ok(want) && name.starts_with("create f; write long") {
            let content = std::fs::read(format!("{dir}/h3.txt")).unwrap_or_default();
            if content != b"short" { got = Err(format!("file holds {:?} after create/write long/close/create/write short/close", String::from_utf8_lossy(&content))); }
        }
        if got == Ok(want) && name.starts_with("append to f") {
            let content = std::fs::read(format!("{dir}/h3.txt")).unwrap_or_default();
            if content != b"short+x" { got = Err(format!("file holds {:?} after appending +x to `short`", String::from_utf8_lossy(&content))); }
        }
        if got != Ok(want) {
            let detail = format!("history `{name}` ended with {:?}, the contract requires {want} ({})", got, if want == CLOSED { "the Closed error kind through the error continuation" } else { "success" });
            println!("{{\"found\":true,\"tried\":{n},\"input\":{},\"clause\":\"CLOSED-STAY\",\"detail\":{}}}", esc(name), esc(&detail));
            return 1;
        }
    }
    println!("{{\"found\":false,\"tried\":{n}}}");
    0
}
