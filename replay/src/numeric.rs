//! C05 (and the numeric roles of C06): dynamic evaluation of the numeric contracts on the REAL code:
//! the public literal API of zydeco-syntax, and the real interpreter (`Runtime::run` over a hand-built
//! `Prim` application, which goes through `BuiltinRuntime::invoke` and the dispatch arms of impls.rs).
use crate::json::esc;
use std::rc::Rc;
use zydeco_dynamics::syntax::*;
use zydeco_dynamics::{ProgKont, Runtime};

pub enum Outcome {
    Ret(SemValue),
    Exit(i32),
    Panic(String),
    Dry,
}

pub fn lit_i64(v: i64) -> Value {
    Value::Lit(Literal::Integer(IntegerLiteral::Int64(v)))
}
pub fn thunk_ret(v: Value) -> Value {
    Value::Thunk(Thunk(Rc::new(Computation::Ret(Return(Rc::new(v))))))
}

/// Run `role a1 .. an` on the real interpreter.
pub fn run_role(role: BuiltinValueRole, args: Vec<Value>, stdin: &[u8], argv: &[String]) -> (Outcome, Vec<u8>) {
    let arity = role.arity() as u64;
    let mut comp: Computation = Computation::Prim(Prim { arity, role });
    for a in args {
        comp = Computation::VApp(App(Rc::new(comp), Rc::new(a)));
    }
    let mut out: Vec<u8> = Vec::new();
    let res = {
        let out_ref = &mut out;
        std::panic::catch_unwind(std::panic::AssertUnwindSafe(move || {
            let mut input = std::io::Cursor::new(stdin.to_vec());
            let program = DynamicsProgram { defs: Default::default(), root: Rc::new(comp) };
            let mut rt = Runtime::new(&mut input, out_ref, argv, program);
            rt.run()
        }))
    };
    let o = match res {
        | Ok(ProgKont::Ret(v)) => Outcome::Ret(v),
        | Ok(ProgKont::ExitCode(c)) => Outcome::Exit(c),
        | Ok(ProgKont::Dry) => Outcome::Dry,
        | Err(e) => Outcome::Panic(
            e.downcast_ref::<String>().cloned().or_else(|| e.downcast_ref::<&str>().map(|s| s.to_string())).unwrap_or_default(),
        ),
    };
    (o, out)
}

fn bits(t: IntegerType) -> u32 {
    match t {
        | IntegerType::Int8 | IntegerType::UInt8 => 8,
        | IntegerType::Int16 | IntegerType::UInt16 => 16,
        | IntegerType::Int32 | IntegerType::UInt32 => 32,
        | IntegerType::Int64 | IntegerType::UInt64 => 64,
    }
}
fn signed(t: IntegerType) -> bool {
    matches!(t, IntegerType::Int8 | IntegerType::Int16 | IntegerType::Int32 | IntegerType::Int64)
}
fn lo(t: IntegerType) -> i128 {
    if signed(t) { -(1i128 << (bits(t) - 1)) } else { 0 }
}
fn hi(t: IntegerType) -> i128 {
    if signed(t) { (1i128 << (bits(t) - 1)) - 1 } else { (1i128 << bits(t)) - 1 }
}
fn wrap(t: IntegerType, x: i128) -> i128 {
    (x - lo(t)).rem_euclid(1i128 << bits(t)) + lo(t)
}
/// build a literal of carrier t holding v (v in range) WITHOUT going through with_type
fn carrier(t: IntegerType, v: i128) -> IntegerLiteral {
    match t {
        | IntegerType::Int8 => IntegerLiteral::Int8(v as i8),
        | IntegerType::Int16 => IntegerLiteral::Int16(v as i16),
        | IntegerType::Int32 => IntegerLiteral::Int32(v as i32),
        | IntegerType::Int64 => IntegerLiteral::Int64(v as i64),
        | IntegerType::UInt8 => IntegerLiteral::UInt8(v as u8),
        | IntegerType::UInt16 => IntegerLiteral::UInt16(v as u16),
        | IntegerType::UInt32 => IntegerLiteral::UInt32(v as u32),
        | IntegerType::UInt64 => IntegerLiteral::UInt64(v as u64),
    }
}
fn mval(l: IntegerLiteral) -> i128 {
    match l {
        | IntegerLiteral::Int8(v) => v as i128,
        | IntegerLiteral::Int16(v) => v as i128,
        | IntegerLiteral::Int32(v) => v as i128,
        | IntegerLiteral::Int64(v) => v as i128,
        | IntegerLiteral::UInt8(v) => v as i128,
        | IntegerLiteral::UInt16(v) => v as i128,
        | IntegerLiteral::UInt32(v) => v as i128,
        | IntegerLiteral::UInt64(v) => v as i128,
        | IntegerLiteral::Unresolved(v) => v,
    }
}
fn mtype(l: IntegerLiteral) -> Option<IntegerType> {
    match l {
        | IntegerLiteral::Int8(_) => Some(IntegerType::Int8),
        | IntegerLiteral::Int16(_) => Some(IntegerType::Int16),
        | IntegerLiteral::Int32(_) => Some(IntegerType::Int32),
        | IntegerLiteral::Int64(_) => Some(IntegerType::Int64),
        | IntegerLiteral::UInt8(_) => Some(IntegerType::UInt8),
        | IntegerLiteral::UInt16(_) => Some(IntegerType::UInt16),
        | IntegerLiteral::UInt32(_) => Some(IntegerType::UInt32),
        | IntegerLiteral::UInt64(_) => Some(IntegerType::UInt64),
        | IntegerLiteral::Unresolved(_) => None,
    }
}

fn operands(t: IntegerType) -> Vec<i128> {
    let (l, h) = (lo(t), hi(t));
    let mut v = vec![l, l + 1, l + 2, -3, -2, -1, 0, 1, 2, 3, 7, 10, 100, h - 2, h - 1, h, h / 2, h / 2 + 1, l / 2, 127, 128, 255, 256, 32767, 32768, 65535, 65536];
    v.retain(|x| *x >= l && *x <= h);
    v.sort();
    v.dedup();
    v
}

/// One concrete check of an integer role on the real interpreter. Err(detail) if the contract is broken.
pub fn check_int_role(t: IntegerType, op: IntegerOperation, a: i128, b: i128) -> Result<(), String> {
    let role = BuiltinValueRole::Integer(t, op);
    let la = Value::Lit(Literal::Integer(carrier(t, a)));
    let lb = Value::Lit(Literal::Integer(carrier(t, b)));
    match op {
        | IntegerOperation::Add | IntegerOperation::Sub | IntegerOperation::Mul | IntegerOperation::Div | IntegerOperation::Mod => {
            let (o, _) = run_role(role, vec![la, lb], b"", &[]);
            if b == 0 && matches!(op, IntegerOperation::Div | IntegerOperation::Mod) {
                return match o {
                    | Outcome::Panic(_) => Ok(()),
                    | _ => Err("division/remainder by zero did not trap".into()),
                };
            }
            let want = match op {
                | IntegerOperation::Add => wrap(t, a + b),
                | IntegerOperation::Sub => wrap(t, a - b),
                | IntegerOperation::Mul => wrap(t, a.wrapping_mul(b)),
                | IntegerOperation::Div => wrap(t, a / b),
                | _ => wrap(t, a % b),
            };
            match o {
                | Outcome::Ret(SemValue::Literal(Literal::Integer(l))) => {
                    if mtype(l) != Some(t) {
                        Err(format!("result carrier {:?}, expected {}", mtype(l), t))
                    } else if mval(l) != want {
                        Err(format!("result {}, expected {}", mval(l), want))
                    } else {
                        Ok(())
                    }
                }
                | Outcome::Panic(m) => Err(format!("interpreter panicked: {m}")),
                | _ => Err("unexpected outcome".into()),
            }
        }
        | IntegerOperation::Eq | IntegerOperation::Lt | IntegerOperation::Gt => {
            let (o, _) = run_role(role, vec![la, lb, thunk_ret(lit_i64(1)), thunk_ret(lit_i64(0))], b"", &[]);
            let want = match op {
                | IntegerOperation::Eq => a == b,
                | IntegerOperation::Lt => a < b,
                | _ => a > b,
            };
            match o {
                | Outcome::Ret(SemValue::Literal(Literal::Integer(IntegerLiteral::Int64(r)))) => {
                    if (r == 1) == want { Ok(()) } else { Err(format!("selected the {} continuation, expected {}", r == 1, want)) }
                }
                | Outcome::Panic(m) => Err(format!("interpreter panicked: {m}")),
                | _ => Err("unexpected outcome".into()),
            }
        }
        | IntegerOperation::ToString => {
            let (o, _) = run_role(role, vec![la], b"", &[]);
            match o {
                | Outcome::Ret(SemValue::Literal(Literal::String(s))) => {
                    // exact value: the decimal text parses back to the mathematical value
                    if s.as_str().parse::<i128>().ok() == Some(a) && (s.as_str() == a.to_string()) { Ok(()) } else { Err(format!("printed {:?}, expected {}", s.as_str(), a)) }
                }
                | Outcome::Panic(m) => Err(format!("interpreter panicked: {m}")),
                | _ => Err("unexpected outcome".into()),
            }
        }
    }
}

fn float_operands64() -> Vec<u64> {
    let mut v: Vec<u64> = [0.0f64, -0.0, 1.0, -1.0, 1.5, 0.1, 0.2, 3.0, 1e308, -1e308, f64::MAX, f64::MIN, f64::MIN_POSITIVE, 5e-324, f64::INFINITY, f64::NEG_INFINITY, f64::NAN, 16777217.0, 3.4028235e38, 3.4028236e38, 1e39, 2.5, 7.0]
        .iter().map(|x| x.to_bits()).collect();
    v.dedup();
    v
}
fn float_operands32() -> Vec<u32> {
    [0.0f32, -0.0, 1.0, -1.0, 1.5, 0.1, 0.2, 3.0, f32::MAX, f32::MIN, f32::MIN_POSITIVE, 1e-45, f32::INFINITY, f32::NEG_INFINITY, f32::NAN, 16777216.0, 16777215.0, 2.5, 7.0, 1e38]
        .iter().map(|x| x.to_bits()).collect()
}

pub fn check_float_role(t: FloatType, op: FloatOperation, a: u64, b: u64) -> Result<(), String> {
    let role = BuiltinValueRole::Float(t, op);
    let mk = |bits: u64| match t {
        | FloatType::Float32 => Value::Lit(Literal::Float(FloatLiteral::from_f32_bits(bits as u32))),
        | FloatType::Float64 => Value::Lit(Literal::Float(FloatLiteral::from_bits(bits))),
    };
    let same = |got: u64, want: u64| -> bool {
        match t {
            | FloatType::Float32 => {
                let (g, w) = (f32::from_bits(got as u32), f32::from_bits(want as u32));
                (g.is_nan() && w.is_nan()) || got == want
            }
            | FloatType::Float64 => {
                let (g, w) = (f64::from_bits(got), f64::from_bits(want));
                (g.is_nan() && w.is_nan()) || got == want
            }
        }
    };
    match op {
        | FloatOperation::Add | FloatOperation::Sub | FloatOperation::Mul | FloatOperation::Div => {
            let want: u64 = match t {
                | FloatType::Float32 => {
                    let (x, y) = (f32::from_bits(a as u32), f32::from_bits(b as u32));
                    (match op { FloatOperation::Add => x + y, FloatOperation::Sub => x - y, FloatOperation::Mul => x * y, _ => x / y }).to_bits() as u64
                }
                | FloatType::Float64 => {
                    let (x, y) = (f64::from_bits(a), f64::from_bits(b));
                    (match op { FloatOperation::Add => x + y, FloatOperation::Sub => x - y, FloatOperation::Mul => x * y, _ => x / y }).to_bits()
                }
            };
            let (o, _) = run_role(role, vec![mk(a), mk(b)], b"", &[]);
            match o {
                | Outcome::Ret(SemValue::Literal(Literal::Float(f))) => {
                    if f.float_type() != t { Err(format!("result carrier {}, expected {}", f.float_type(), t)) }
                    else if !same(f.to_bits(), want) { Err(format!("result bits {:#x}, expected {:#x}", f.to_bits(), want)) }
                    else { Ok(()) }
                }
                | Outcome::Panic(m) => Err(format!("interpreter panicked: {m}")),
                | _ => Err("unexpected outcome".into()),
            }
        }
        | FloatOperation::Eq | FloatOperation::Lt | FloatOperation::Gt => {
            let want = match t {
                | FloatType::Float32 => {
                    let (x, y) = (f32::from_bits(a as u32), f32::from_bits(b as u32));
                    match op { FloatOperation::Eq => x == y, FloatOperation::Lt => x < y, _ => x > y }
                }
                | FloatType::Float64 => {
                    let (x, y) = (f64::from_bits(a), f64::from_bits(b));
                    match op { FloatOperation::Eq => x == y, FloatOperation::Lt => x < y, _ => x > y }
                }
            };
            let (o, _) = run_role(role, vec![mk(a), mk(b), thunk_ret(lit_i64(1)), thunk_ret(lit_i64(0))], b"", &[]);
            match o {
                | Outcome::Ret(SemValue::Literal(Literal::Integer(IntegerLiteral::Int64(r)))) => {
                    if (r == 1) == want { Ok(()) } else { Err(format!("selected the {} continuation, expected {}", r == 1, want)) }
                }
                | Outcome::Panic(m) => Err(format!("interpreter panicked: {m}")),
                | _ => Err("unexpected outcome".into()),
            }
        }
        | FloatOperation::ToString => {
            let (o, _) = run_role(role, vec![mk(a)], b"", &[]);
            match o {
                | Outcome::Ret(SemValue::Literal(Literal::String(s))) => {
                    // exact value: the shortest decimal text parses back to the same bits at that width
                    let ok = match t {
                        | FloatType::Float32 => s.as_str().parse::<f32>().map(|p| same(p.to_bits() as u64, a)).unwrap_or(false),
                        | FloatType::Float64 => s.as_str().parse::<f64>().map(|p| same(p.to_bits(), a)).unwrap_or(false),
                    };
                    if ok { Ok(()) } else { Err(format!("printed {:?} does not denote the value with bits {:#x}", s.as_str(), a)) }
                }
                | Outcome::Panic(m) => Err(format!("interpreter panicked: {m}")),
                | _ => Err("unexpected outcome".into()),
            }
        }
    }
}

/// literal API contracts (c05_literal / c05_kani::literal) on one input
pub fn check_literal(t: IntegerType, v: i128) -> Result<(), (String, String)> {
    let l = IntegerLiteral::new(v);
    if mval(l) != v || mtype(l).is_some() { return Err(("NEW".into(), "new() does not carry the value unresolved".into())); }
    if l.value() != v { return Err(("VALUE".into(), format!("value() = {}", l.value()))); }
    let r = l.with_type(t);
    let inr = lo(t) <= v && v <= hi(t);
    if r.is_some() != inr {
        return Err(("RANGE".into(), format!("with_type({t}) on {v}: accepted={}, in range={}", r.is_some(), inr)));
    }
    if let Some(r) = r {
        if mval(r) != v { return Err(("EXACT".into(), format!("with_type({t}) on {v} carries {}", mval(r)))); }
        if mtype(r) != Some(t) { return Err(("CARRIER".into(), format!("with_type({t}) on {v} has carrier {:?}", mtype(r)))); }
        if r.integer_type() != Some(t) { return Err(("TYPEOF".into(), format!("integer_type() = {:?}", r.integer_type()))); }
        if r.value() != v { return Err(("VALUE".into(), format!("value() of typed literal = {}", r.value()))); }
        let w = r.to_word_bits();
        if (w as i128) != v.rem_euclid(1i128 << bits(t)) { return Err(("WORD".into(), format!("to_word_bits() = {w:#x}"))); }
        // every carrier is itself a valid source literal
        for t2 in IntegerType::ALL {
            let r2 = r.with_type(t2);
            let in2 = lo(t2) <= v && v <= hi(t2);
            if r2.is_some() != in2 { return Err(("RANGE".into(), format!("with_type({t2}) on {t}-carried {v}: accepted={}, in range={}", r2.is_some(), in2))); }
            if let Some(r2) = r2 { if mval(r2) != v || mtype(r2) != Some(t2) { return Err(("EXACT".into(), format!("re-typing {t}->{t2} of {v} gives {}", mval(r2)))); } }
        }
    }
    if inr {
        let f = std::panic::catch_unwind(|| IntegerLiteral::from_value(v, t));
        match f {
            | Ok(f) if mval(f) == v && mtype(f) == Some(t) => {}
            | Ok(f) => return Err(("FROMVALUE".into(), format!("from_value({v},{t}) = {} : {:?}", mval(f), mtype(f)))),
            | Err(_) => return Err(("FROMVALUE".into(), format!("from_value({v},{t}) panicked in range"))),
        }
    }
    Ok(())
}

fn literal_values(t: IntegerType) -> Vec<i128> {
    let mut v = vec![i128::MIN, i128::MIN + 1, i128::MAX, i128::MAX - 1, 0, 1, -1];
    for tt in IntegerType::ALL {
        for d in -2..=2 { v.push(lo(tt) + d); v.push(hi(tt) + d); }
    }
    for k in 0..127 { v.push(1i128 << k); v.push((1i128 << k) - 1); v.push(-(1i128 << k)); v.push(-(1i128 << k) - 1); }
    let _ = t;
    v.sort();
    v.dedup();
    v
}

fn fmt_input(parts: &[String]) -> String { parts.join(" ") }

fn search(filter: &[String], f: &mut dyn FnMut(String, &str, String) -> bool) -> u64 {
    let mut n = 0u64;
    // optional filter: <kind> [<type source name> [<op source name>...]]
    let kind_ok = |k: &str| filter.is_empty() || filter[0] == k;
    let ty_ok = |t: &str| filter.len() < 2 || filter[1] == t || filter[1] == "*";
    let op_ok = |o: &str| filter.len() < 3 || filter[2..].iter().any(|x| x == o);
    // literals
    for t in IntegerType::ALL {
        if !kind_ok("literal") || !ty_ok(t.source_name()) { continue; }
        for v in literal_values(t) {
            n += 1;
            if let Err((clause, detail)) = check_literal(t, v) {
                if f(fmt_input(&["literal".into(), t.source_name().into(), v.to_string()]), &clause, detail) { return n; }
            }
        }
    }
    // integer roles through the real interpreter
    for t in IntegerType::ALL {
        let ops = operands(t);
        if !kind_ok("int") || !ty_ok(t.source_name()) { continue; }
        for op in IntegerOperation::ALL {
            if !op_ok(op.source_name()) { continue; }
            let exhaustive8 = bits(t) == 8;
            let xs: Vec<i128> = if exhaustive8 { (lo(t)..=hi(t)).collect() } else { ops.clone() };
            for &a in &xs {
                let ys: &Vec<i128> = if exhaustive8 { &xs } else { &ops };
                if matches!(op, IntegerOperation::ToString) {
                    n += 1;
                    if let Err(d) = check_int_role(t, op, a, 0) {
                        if f(fmt_input(&["int".into(), t.source_name().into(), op.source_name().into(), a.to_string(), "0".into()]), "ARITH", d) { return n; }
                    }
                    continue;
                }
                for &b in ys {
                    n += 1;
                    if let Err(d) = check_int_role(t, op, a, b) {
                        let clause = if op.is_branch() { "CMP" } else { "ARITH" };
                        if f(fmt_input(&["int".into(), t.source_name().into(), op.source_name().into(), a.to_string(), b.to_string()]), clause, d) { return n; }
                    }
                }
            }
        }
    }
    for t in FloatType::ALL {
        let xs: Vec<u64> = match t { FloatType::Float32 => float_operands32().into_iter().map(|x| x as u64).collect(), FloatType::Float64 => float_operands64() };
        if !kind_ok("float") || !ty_ok(t.source_name()) { continue; }
        for op in FloatOperation::ALL {
            if !op_ok(op.source_name()) { continue; }
            for &a in &xs {
                for &b in &xs {
                    n += 1;
                    if let Err(d) = check_float_role(t, op, a, b) {
                        if f(fmt_input(&["float".into(), t.source_name().into(), op.source_name().into(), a.to_string(), b.to_string()]), "FLOAT", d) { return n; }
                    }
                    if matches!(op, FloatOperation::ToString) { break; }
                }
            }
        }
    }
    // float literal narrowing
    for &b in &float_operands64() {
        if !kind_ok("floatlit") { break; }
        n += 1;
        let v = f64::from_bits(b);
        let r = FloatLiteral::from_bits(b).with_type(FloatType::Float32);
        if v.is_finite() {
            let nar = v as f32;
            let ok = r.is_some() == nar.is_finite() && r.map(|r| r.to_bits() == nar.to_bits() as u64 && r.float_type() == FloatType::Float32).unwrap_or(true);
            if !ok && f(fmt_input(&["floatlit".into(), b.to_string()]), "FLIT-F32", format!("{v:e} : Float32 accepted={} but narrowing gives {nar:e}", r.is_some())) { return n; }
        }
        let r64 = FloatLiteral::from_bits(b).with_type(FloatType::Float64);
        let ok = r64.map(|r| r.float_type() == FloatType::Float64 && (r.to_bits() == b || v.is_nan())).unwrap_or(false);
        if !ok && f(fmt_input(&["floatlit".into(), b.to_string()]), "FLIT-F64", "Float64 literal not preserved".into()) { return n; }
    }
    n
}

pub fn witness(args: &[String]) -> i32 {
    std::panic::set_hook(Box::new(|_| {}));
    let mut found: Option<(String, String, String)> = None;
    let n = search(args, &mut |input, clause, detail| {
        found = Some((input, clause.to_owned(), detail));
        true
    });
    match found {
        | Some((i, c, d)) => {
            println!("{{\"found\":true,\"tried\":{n},\"input\":{},\"clause\":{},\"detail\":{}}}", esc(&i), esc(&c), esc(&d));
            1
        }
        | None => {
            println!("{{\"found\":false,\"tried\":{n}}}");
            0
        }
    }
}

fn parse_itype(s: &str) -> Option<IntegerType> { IntegerType::ALL.into_iter().find(|t| t.source_name() == s) }
fn parse_ftype(s: &str) -> Option<FloatType> { FloatType::ALL.into_iter().find(|t| t.source_name() == s) }

pub fn replay(args: &[String]) -> i32 {
    std::panic::set_hook(Box::new(|_| {}));
    let input = args.first().cloned().unwrap_or_default();
    let p: Vec<&str> = input.split_whitespace().collect();
    let r: Result<(), String> = match p.as_slice() {
        | ["literal", t, v] => match (parse_itype(t), v.parse::<i128>()) {
            | (Some(t), Ok(v)) => check_literal(t, v).map_err(|(c, d)| format!("{c}: {d}")),
            | _ => Err("bad input".into()),
        },
        | ["int", t, op, a, b] => match (parse_itype(t), IntegerOperation::from_source_name(op), a.parse::<i128>(), b.parse::<i128>()) {
            | (Some(t), Some(op), Ok(a), Ok(b)) => check_int_role(t, op, a, b),
            | _ => Err("bad input".into()),
        },
        | ["floatlit", b] => match b.parse::<u64>() {
            | Ok(b) => {
                let v = f64::from_bits(b);
                let r = FloatLiteral::from_bits(b).with_type(FloatType::Float32);
                let nar = v as f32;
                if v.is_finite() && !(r.is_some() == nar.is_finite() && r.map(|r| r.to_bits() == nar.to_bits() as u64 && r.float_type() == FloatType::Float32).unwrap_or(true)) {
                    Err(format!("{v:e} : Float32 accepted={} but narrowing gives {nar:e}", r.is_some()))
                } else { Ok(()) }
            }
            | _ => Err("bad input".into()),
        },
        | ["float", t, op, a, b] => match (parse_ftype(t), FloatOperation::from_source_name(op), a.parse::<u64>(), b.parse::<u64>()) {
            | (Some(t), Some(op), Ok(a), Ok(b)) => check_float_role(t, op, a, b),
            | _ => Err("bad input".into()),
        },
        | _ => Err("bad input".into()),
    };
    match r {
        | Err(d) => {
            println!("{{\"fails\":true,\"input\":{},\"detail\":{}}}", esc(&input), esc(&d));
            1
        }
        | Ok(()) => {
            println!("{{\"fails\":false,\"input\":{}}}", esc(&input));
            0
        }
    }
}
