//! C06: every host role run through the REAL interpreter at the argument shapes its ABI classifier declares
//! (built mechanically from `BuiltinOperationAbi::for_role`), with per-role oracles for the text operations.
use crate::json::esc;
use crate::numeric::{Outcome, run_role};
use std::rc::Rc;
use zydeco_dynamics::host::{HostValue, ReaderHandle, WriterHandle};
use zydeco_dynamics::syntax::*;
use zydeco_statics::builtin::{BuiltinComputationClassifier as CC, BuiltinOperationAbi, BuiltinValueAtom as Atom, BuiltinValueClassifier as VC};

fn lit_i64(v: i64) -> Value { Value::Lit(Literal::Integer(IntegerLiteral::Int64(v))) }

/// a continuation thunk for classifier `c`: consumes as many arguments as `c` has arrows, then returns marker `m`
fn continuation(c: &CC, m: i64) -> Value {
    fn body(c: &CC, m: i64) -> Computation {
        match c {
            | CC::Arrow(_, out) => Computation::VAbs(Abs(Rc::new(ValuePattern::Hole(Hole)), Rc::new(body(out, m)))),
            | CC::ForallCType(inner) => body(inner, m),
            | _ => Computation::Ret(Return(Rc::new(lit_i64(m)))),
        }
    }
    Value::Thunk(Thunk(Rc::new(body(c, m))))
}

#[derive(Clone)]
pub struct Sample { pub string: String, pub int: i64, pub ch: char, pub bytes: Vec<u8> }

fn atom_value(a: &Atom, s: &Sample) -> Value {
    match a {
        | Atom::Integer(t) => {
            let v = s.int as i128;
            Value::Lit(Literal::Integer(match t {
                | IntegerType::Int8 => IntegerLiteral::Int8(v as i8),
                | IntegerType::Int16 => IntegerLiteral::Int16(v as i16),
                | IntegerType::Int32 => IntegerLiteral::Int32(v as i32),
                | IntegerType::Int64 => IntegerLiteral::Int64(v as i64),
                | IntegerType::UInt8 => IntegerLiteral::UInt8(v as u8),
                | IntegerType::UInt16 => IntegerLiteral::UInt16(v as u16),
                | IntegerType::UInt32 => IntegerLiteral::UInt32(v as u32),
                | IntegerType::UInt64 => IntegerLiteral::UInt64(v as u64),
            }))
        }
        | Atom::Float(FloatType::Float32) => Value::Lit(Literal::Float(FloatLiteral::from_f32_bits(1.5f32.to_bits()))),
        | Atom::Float(FloatType::Float64) => Value::Lit(Literal::Float(FloatLiteral::from_bits(1.5f64.to_bits()))),
        | Atom::Char => Value::Lit(Literal::Char(s.ch)),
        | Atom::String => Value::Lit(Literal::String(s.string.as_str().into())),
        | Atom::Bytes => Value::SemValue(SemValue::Host(HostValue::Bytes(s.bytes.clone().into()))),
        | Atom::Reader => Value::SemValue(SemValue::Host(HostValue::Reader(ReaderHandle::STDIN))),
        | Atom::Writer => Value::SemValue(SemValue::Host(HostValue::Writer(WriterHandle::STDOUT))),
    }
}

/// parameters and final result classifier of a role
fn signature(role: BuiltinValueRole) -> (Vec<VC>, CC) {
    let VC::Thunk(body) = BuiltinOperationAbi::for_role(role).into_classifier() else { panic!("not a thunk") };
    let mut params = Vec::new();
    let mut cur = *body;
    loop {
        match cur {
            | CC::ForallCType(inner) => cur = *inner,
            | CC::Arrow(p, out) => { params.push(p); cur = *out; }
            | other => return (params, other),
        }
    }
}

pub enum Seen { Marker(i64), Value(SemValue), Exit(i32), Panic(String), Other }

/// Run `role` on the sample at its declared shapes. Continuation parameter k gets marker 100+k.
pub fn run_declared(role: BuiltinValueRole, s: &Sample, stdin: &[u8], argv: &[String]) -> (Seen, Vec<i64>, Vec<u8>) {
    let (params, _res) = signature(role);
    let mut args = Vec::new();
    let mut markers = Vec::new();
    for (k, p) in params.iter().enumerate() {
        match p {
            | VC::Atom(a) => args.push(atom_value(a, s)),
            | VC::Thunk(c) => { args.push(continuation(c, 100 + k as i64)); markers.push(100 + k as i64); }
        }
    }
    let (o, out) = run_role(role, args, stdin, argv);
    let seen = match o {
        | Outcome::Ret(SemValue::Literal(Literal::Integer(IntegerLiteral::Int64(m)))) if markers.contains(&m) => Seen::Marker(m),
        | Outcome::Ret(v) => Seen::Value(v),
        | Outcome::Exit(c) => Seen::Exit(c),
        | Outcome::Panic(m) => Seen::Panic(m),
        | Outcome::Dry => Seen::Other,
    };
    (seen, markers, out)
}

fn atom_matches(a: &Atom, v: &SemValue) -> bool {
    match (a, v) {
        | (Atom::Integer(t), SemValue::Literal(Literal::Integer(l))) => l.integer_type() == Some(*t),
        | (Atom::Float(t), SemValue::Literal(Literal::Float(f))) => f.float_type() == *t,
        | (Atom::Char, SemValue::Literal(Literal::Char(_))) => true,
        | (Atom::String, SemValue::Literal(Literal::String(_))) => true,
        | (Atom::Bytes, SemValue::Host(HostValue::Bytes(_))) => true,
        | (Atom::Reader, SemValue::Host(HostValue::Reader(_))) => true,
        | (Atom::Writer, SemValue::Host(HostValue::Writer(_))) => true,
        | _ => false,
    }
}

/// generic contract: no panic; consumes exactly its declared arguments (arity == declared parameters);
/// a pure role returns a value of the declared atom; every other role selects one of its continuations (or exits)
pub fn check_generic(role: BuiltinValueRole, s: &Sample) -> Result<(), String> {
    let (params, res) = signature(role);
    if params.len() != role.arity() {
        return Err(format!("ABI declares {} parameters, arity table says {}", params.len(), role.arity()));
    }
    let argv = vec!["prog".to_string(), "x".to_string()];
    let (seen, markers, _out) = run_declared(role, s, b"12\nrest", &argv);
    match (&res, seen) {
        | (_, Seen::Panic(m)) => Err(format!("interpreter failed internally: {m}")),
        | (CC::Return(v), Seen::Value(got)) => match v.as_ref() {
            | VC::Atom(a) if atom_matches(a, &got) => Ok(()),
            | VC::Atom(a) => Err(format!("declared result {a}, got {got:?}")),
            | _ => Ok(()),
        },
        | (CC::Return(_), _) => Err("declared a returned value, but a continuation/exit was taken".into()),
        | (_, Seen::Marker(m)) if markers.contains(&m) => Ok(()),
        | (_, Seen::Exit(_)) if matches!(role, BuiltinValueRole::Exit) => Ok(()),
        | (_, Seen::Value(v)) => Err(format!("no continuation was selected; returned {v:?}")),
        | _ => Err("unexpected outcome".into()),
    }
}

fn strings() -> Vec<String> {
    ["", "a", "abc", "\u{e9}", "a\u{e9}\u{20ac}\u{1f600}", "\u{1f600}\u{20ac}\u{e9}a", "12", "-7", "x,y,z", "\u{e9},\u{20ac}", " 5", "9223372036854775808", "+3", "a\u{301}"].iter().map(|s| s.to_string()).collect()
}

/// per-role oracles for the text operations (written from the property: Unicode scalar values, none-branch on bad positions)
pub fn check_text(role: BuiltinValueRole, s: &Sample) -> Result<(), String> {
    use BuiltinValueRole as R;
    let scalars: Vec<char> = s.string.chars().collect();
    let n = scalars.len() as i64;
    let (seen, _markers, _out) = run_declared(role, s, b"", &[]);
    let none = 100 + (role.arity() as i64 - 2);
    let some = 100 + (role.arity() as i64 - 1);
    let is = |m: i64| matches!(seen, Seen::Marker(x) if x == m);
    match role {
        | R::StrScalarLength => match &seen {
            | Seen::Value(SemValue::Literal(Literal::Integer(IntegerLiteral::Int64(v)))) if *v == n => Ok(()),
            | _ => Err(format!("scalar length of {:?} is not {}", s.string, n)),
        },
        | R::StrByteLength => match &seen {
            | Seen::Value(SemValue::Literal(Literal::Integer(IntegerLiteral::Int64(v)))) if *v == s.string.len() as i64 => Ok(()),
            | _ => Err(format!("byte length of {:?} is not {}", s.string, s.string.len())),
        },
        | R::StrGet => {
            let want_some = s.int >= 0 && s.int < n;
            if is(if want_some { some } else { none }) { Ok(()) } else { Err(format!("str_get {:?} {} took the wrong branch (in range: {want_some})", s.string, s.int)) }
        }
        | R::StrSplitAt => {
            let want_some = s.int >= 0 && s.int <= n;
            if is(if want_some { some } else { none }) { Ok(()) } else { Err(format!("str_split_at {:?} {} took the wrong branch (valid: {want_some})", s.string, s.int)) }
        }
        | R::StrSplitOnce => {
            let want_some = s.string.contains(s.ch);
            if is(if want_some { some } else { none }) { Ok(()) } else { Err(format!("str_split_once {:?} {:?} took the wrong branch", s.string, s.ch)) }
        }
        | R::CharFromCodepoint => {
            let want_some = u32::try_from(s.int).ok().and_then(char::from_u32).is_some();
            if is(if want_some { some } else { none }) { Ok(()) } else { Err(format!("char_from_codepoint {} took the wrong branch (scalar value: {want_some})", s.int)) }
        }
        | R::StrParseInt => {
            let want_some = s.string.parse::<i64>().is_ok();
            if is(if want_some { some } else { none }) { Ok(()) } else { Err(format!("str_parse_int {:?} took the wrong branch (parsable: {want_some})", s.string)) }
        }
        | R::BytesToStr => {
            let want_some = std::str::from_utf8(&s.bytes).is_ok();
            if is(if want_some { some } else { none }) { Ok(()) } else { Err(format!("bytes_to_str {:?} took the wrong branch (valid UTF-8: {want_some})", s.bytes)) }
        }
        | R::StrEq => Ok(()),
        | R::CharCodepoint => match &seen {
            | Seen::Value(SemValue::Literal(Literal::Integer(IntegerLiteral::Int64(v)))) if *v == s.ch as u32 as i64 => Ok(()),
            | _ => Err(format!("char_codepoint {:?}", s.ch)),
        },
        | R::BytesLength => match &seen {
            | Seen::Value(SemValue::Literal(Literal::Integer(IntegerLiteral::Int64(v)))) if *v == s.bytes.len() as i64 => Ok(()),
            | _ => Err("bytes_length".into()),
        },
        | _ => Ok(()),
    }
}

fn samples() -> Vec<Sample> {
    let mut v = Vec::new();
    let ints = [-1i64, 0, 1, 2, 3, 4, 5, 10, 11, i64::MAX, i64::MIN, 0xD800, 0x10FFFF, 0x110000, 0xE9, 0x1F600];
    let bytes: [&[u8]; 5] = [b"", b"abc", &[0xff, 0x61], &[0xc3, 0xa9], &[0xc3]];
    for (k, s) in strings().into_iter().enumerate() {
        for (j, i) in ints.iter().enumerate() {
            v.push(Sample { string: s.clone(), int: *i, ch: [',', 'a', '\u{e9}', '\u{1f600}'][(k + j) % 4], bytes: bytes[(k + j) % 5].to_vec() });
        }
    }
    v
}

fn role_name(r: BuiltinValueRole) -> String { r.source_name() }

/// I/O roles on the injected standard input: an EMPTY LINE is a line, not end of input; end of input is end of input
pub fn check_io_lines() -> Result<(), (String, String)> {
    use BuiltinValueRole as R;
    let s = Sample { string: String::new(), int: 0, ch: 'a', bytes: vec![] };
    // io_read_line: reader, error(100+1), eof(100+2), line(100+3)
    for (stdin, want, what) in [(&b"\nrest"[..], 103i64, "an empty first line is a LINE"), (&b""[..], 102, "empty input is EOF"), (&b"x"[..], 103, "a last line without newline is a LINE"), (&b"\r\n"[..], 103, "a CRLF-only line is a LINE")] {
        let (seen, _m, _o) = run_declared(R::IoReadLine, &s, stdin, &[]);
        if !matches!(seen, Seen::Marker(m) if m == want) {
            return Err((format!("io_read_line|stdin={:?}", String::from_utf8_lossy(stdin)), format!("io_read_line on stdin {:?}: {what}, but continuation #{want} was not selected", String::from_utf8_lossy(stdin))));
        }
    }
    // io_read with a count: reader, count, error, success -> success continuation even at EOF (0 bytes); negative count -> error continuation
    for (count, stdin, want) in [(0i64, &b"abc"[..], 103i64), (2, &b"abc"[..], 103), (5, &b""[..], 103), (-1, &b"abc"[..], 102), (i64::MAX, &b"abc"[..], 103), (1i64 << 62, &b"abc"[..], 103)] {
        eprintln!("TRYING io_read|count={count}");
        let mut s2 = s.clone();
        s2.int = count;
        let (seen, _m, _o) = run_declared(R::IoRead, &s2, stdin, &[]);
        if !matches!(seen, Seen::Marker(m) if m == want) {
            return Err((format!("io_read|count={count}"), format!("io_read count {count}: continuation #{want} was not selected")));
        }
    }
    Ok(())
}

pub fn witness(args: &[String]) -> i32 {
    std::panic::set_hook(Box::new(|_| {}));
    let filter = args.first().cloned();
    if filter.is_none() {
        if let Err((input, d)) = check_io_lines() {
            println!("{{\"found\":true,\"tried\":1,\"input\":{},\"clause\":\"IO-LINES\",\"detail\":{}}}", esc(&input), esc(&d));
            return 1;
        }
    }
    let mut n = 0u64;
    let all = samples();
    for role in BuiltinValueRole::all() {
        if let Some(f) = &filter { if &role_name(role) != f { continue; } }
        // roles touching the real file system / process state are exercised only with the benign sample
        let heavy = matches!(role, BuiltinValueRole::FsOpenReader | BuiltinValueRole::FsCreateWriter | BuiltinValueRole::FsAppendWriter | BuiltinValueRole::RandomInt);
        for (k, s) in all.iter().enumerate() {
            if heavy && k > 0 { break; }
            if matches!(role, BuiltinValueRole::Integer(_, IntegerOperation::Div | IntegerOperation::Mod)) && (s.int as u8) == 0 { continue; }
            let mut s = s.clone();
            if heavy { s.string = "/nonexistent-dir-vf/none".into(); }
            n += 1;
            let r = check_generic(role, &s).map_err(|d| ("GENERIC", d)).and_then(|_| check_text(role, &s).map_err(|d| ("TEXT", d)));
            if let Err((clause, d)) = r {
                let input = format!("{}|{}|{}|{}|{}", role_name(role), s.string, s.int, s.ch as u32, s.bytes.iter().map(|b| format!("{b:02x}")).collect::<String>());
                println!("{{\"found\":true,\"tried\":{n},\"input\":{},\"clause\":{},\"detail\":{}}}", esc(&input), esc(clause), esc(&d));
                return 1;
            }
        }
    }
    println!("{{\"found\":false,\"tried\":{n}}}");
    0
}

pub fn replay(args: &[String]) -> i32 {
    std::panic::set_hook(Box::new(|_| {}));
    let input = args.first().cloned().unwrap_or_default();
    if input.starts_with("io_read") && input.contains('=') {
        return match check_io_lines() {
            | Err((i, d)) => { println!("{{\"fails\":true,\"input\":{},\"detail\":{}}}", esc(&i), esc(&d)); 1 }
            | Ok(()) => { println!("{{\"fails\":false,\"input\":{}}}", esc(&input)); 0 }
        };
    }
    let p: Vec<&str> = input.splitn(5, '|').collect();
    if p.len() != 5 { println!("{{\"fails\":false,\"error\":\"bad input\"}}"); return 2; }
    let Some(role) = BuiltinValueRole::from_source_name(p[0]) else { println!("{{\"fails\":false,\"error\":\"unknown role\"}}"); return 2; };
    let bytes: Vec<u8> = (0..p[4].len() / 2).filter_map(|i| u8::from_str_radix(&p[4][2 * i..2 * i + 2], 16).ok()).collect();
    let s = Sample { string: p[1].to_string(), int: p[2].parse().unwrap_or(0), ch: char::from_u32(p[3].parse().unwrap_or(97)).unwrap_or('a'), bytes };
    match check_generic(role, &s).and_then(|_| check_text(role, &s)) {
        | Err(d) => { println!("{{\"fails\":true,\"input\":{},\"detail\":{}}}", esc(&input), esc(&d)); 1 }
        | Ok(()) => { println!("{{\"fails\":false,\"input\":{}}}", esc(&input)); 0 }
    }
}
