//! C11: dynamic evaluation of the `Lexer::next` contract (units/c11_lexer) on the real lexer.
use crate::json::esc;
use logos::Logos;
use zydeco_surface::textual::lexer::{Lexer, Tok};

/// The reference comment discipline of units/c11_lexer/unit.rs.tpl (`is_skipped` / `depth_step`),
/// transcribed to executable Rust. Input: the raw logos items of the source.
/// Expected output of the whole stream: delivered tokens; `Err(k)` marks "an Err item at raw index k: the stream must not
/// silently end here" (only reachable if assumption A-logos-total fails on the real automaton).
fn reference<'s>(items: &[(Result<Tok<'s>, ()>, std::ops::Range<usize>)]) -> (Vec<(usize, Tok<'s>, usize)>, Option<usize>) {
    let mut depth: usize = 0;
    let mut out = Vec::new();
    let mut pending: std::ops::Range<usize> = 0..0;
    for (k, (tok, range)) in items.iter().enumerate() {
        let Ok(tok) = tok else {
            return (out, Some(k));
        };
        let skipped = match tok {
            | Tok::TextLine(_) | Tok::CommentLine(_) | Tok::CommentOpen => true,
            | Tok::CommentClose => depth > 0,
            | _ => depth > 0,
        };
        match tok {
            | Tok::CommentOpen => {
                if depth == 0 { pending = range.clone(); }
                depth += 1
            }
            | Tok::CommentClose if depth > 0 => depth -= 1,
            | _ => {}
        }
        if !skipped {
            out.push((range.start, tok.clone(), range.end));
        }
    }
    if depth > 0 {
        // [E4b] input ends inside a block comment: the outermost unterminated `/-` is delivered
        out.push((pending.start, Tok::CommentOpen, pending.end));
    }
    (out, None)
}

/// Returns None if the real lexer honours the contract on `src`, else (clause, detail).
pub fn check_source(src: &str) -> Option<(&'static str, String)> {
    let raw: Vec<_> = Tok::lexer(src).spanned().collect();
    let (want, err_at) = reference(&raw);
    let got: Vec<_> = Lexer::new(src).collect();
    if let Some(k) = err_at {
        // the automaton produced an Err item (A-logos-total does not hold here). The property still demands that the stream
        // does not silently end: any non-comment token after it must be delivered, or an error token must stand for it.
        let prefix_ok = got.len() >= want.len() && got.iter().zip(want.iter()).all(|(g, w)| g == w);
        let rest_has_tokens = raw[k + 1..].iter().any(|(t, _)| matches!(t, Ok(t) if !matches!(t, Tok::TextLine(_) | Tok::CommentLine(_))));
        if prefix_ok && got.len() == want.len() && (rest_has_tokens || true) {
            return Some(("E1", format!("the token automaton yields an error item at {:?} and the stream silently ENDS there ({} raw items follow)", raw[k].1, raw.len() - k - 1)));
        }
        return None;
    }
    for (i, w) in want.iter().enumerate() {
        match got.get(i) {
            | None => {
                return Some((
                    "E1",
                    format!(
                        "token stream ended after {} tokens; token #{} `{}` at {}..{} outside comments was never delivered",
                        got.len(), i, w.1, w.0, w.2
                    ),
                ));
            }
            | Some(g) if g != w => {
                return Some((
                    "E2b",
                    format!("token #{i}: delivered `{}` at {}..{}, contract requires `{}` at {}..{}", g.1, g.0, g.2, w.1, w.0, w.2),
                ));
            }
            | _ => {}
        }
    }
    if got.len() > want.len() {
        let g = &got[want.len()];
        return Some(("E2b", format!("extra token `{}` at {}..{} delivered from inside a comment", g.1, g.0, g.2)));
    }
    None
}

const ALPHABET: &[&str] = &["-", "/", "a", " ", "\n", "\"", "#", "(", ")", "'", "\\", "1", "!", "-/", "/-", "--", "\u{a0}", "\r", "99999999999999999999999999999999999999999", "1e99999"];

fn enumerate(max_len: usize, f: &mut dyn FnMut(&str) -> bool) -> u64 {
    // all concatenations of up to max_len alphabet pieces, shortest first
    let mut n = 0u64;
    for len in 0..=max_len {
        let mut idx = vec![0usize; len];
        loop {
            let s: String = idx.iter().map(|&i| ALPHABET[i]).collect();
            n += 1;
            if f(&s) {
                return n;
            }
            let mut k = len;
            loop {
                if k == 0 {
                    break;
                }
                k -= 1;
                idx[k] += 1;
                if idx[k] < ALPHABET.len() {
                    break;
                }
                idx[k] = 0;
                if k == 0 {
                    k = usize::MAX;
                    break;
                }
            }
            if len == 0 || k == usize::MAX {
                break;
            }
        }
    }
    n
}

/// Witness search: shortest source over the alphabet on which the real `Lexer` breaks its contract.
pub fn witness(args: &[String]) -> i32 {
    let max_len: usize = args.first().and_then(|s| s.parse().ok()).unwrap_or(4);
    let mut found: Option<(String, &'static str, String)> = None;
    let n = enumerate(max_len, &mut |s| {
        if let Some((clause, detail)) = check_source(s) {
            found = Some((s.to_owned(), clause, detail));
            true
        } else {
            false
        }
    });
    match found {
        | Some((s, clause, detail)) => {
            println!("{{\"found\":true,\"tried\":{n},\"input\":{},\"clause\":{},\"detail\":{}}}", esc(&s), esc(clause), esc(&detail));
            1
        }
        | None => {
            println!("{{\"found\":false,\"tried\":{n},\"max_pieces\":{max_len},\"alphabet\":{}}}", ALPHABET.len());
            0
        }
    }
}

/// Re-run the contract on one concrete source (argument is the literal source text).
pub fn replay(args: &[String]) -> i32 {
    let src = args.first().map(|s| s.as_str()).unwrap_or("");
    match check_source(src) {
        | Some((clause, detail)) => {
            println!("{{\"fails\":true,\"input\":{},\"clause\":{},\"detail\":{}}}", esc(src), esc(clause), esc(&detail));
            1
        }
        | None => {
            println!("{{\"fails\":false,\"input\":{}}}", esc(src));
            0
        }
    }
}

/// Assumption A-logos-total: the raw logos iterator yields no `Err` item. Checked on every single Unicode
/// scalar value and every pair over a 64-character alphabet (and every pair followed/preceded by a quote).
pub fn assumption_a1(_args: &[String]) -> i32 {
    let mut n = 0u64;
    let mut bad: Option<String> = None;
    let mut buf = String::new();
    for cp in 0..=0x10FFFFu32 {
        let Some(c) = char::from_u32(cp) else { continue };
        buf.clear();
        buf.push(c);
        n += 1;
        if Tok::lexer(&buf).spanned().any(|(t, _)| t.is_err()) {
            bad = Some(buf.clone());
            break;
        }
    }
    let alpha: Vec<char> =
        "abzAZ09_'?+*-=~.\"\\/|!@#$%^&(){}[]<>,;: \t\n\r\u{c}eE\u{e9}\u{20ac}\u{1f600}\u{0}\u{7f}nrt`xX5".chars().collect();
    if bad.is_none() {
        'outer: for &a in &alpha {
            for &b in &alpha {
                for pre in ["", "\"", "'", "--", "/-"] {
                    buf.clear();
                    buf.push_str(pre);
                    buf.push(a);
                    buf.push(b);
                    n += 1;
                    if Tok::lexer(&buf).spanned().any(|(t, _)| t.is_err()) {
                        bad = Some(buf.clone());
                        break 'outer;
                    }
                    for &c in &alpha {
                        buf.push(c);
                        n += 1;
                        if Tok::lexer(&buf).spanned().any(|(t, _)| t.is_err()) {
                            bad = Some(buf.clone());
                            break 'outer;
                        }
                        buf.pop();
                    }
                }
            }
        }
    }
    if bad.is_none() {
        // literal tokens of extreme length / magnitude (a token callback that rejects them would make the automaton partial)
        for s in ["9".repeat(39), "9".repeat(40), "-".to_owned() + &"9".repeat(45), "1".repeat(400), "1e99999".into(), "1.0e-99999".into(), "0.".to_owned() + &"0".repeat(400) + "1",
                  "\"".to_owned() + &"a".repeat(5000) + "\"", "a".repeat(5000), "--".to_owned() + &"c".repeat(5000)] {
            n += 1;
            if Tok::lexer(&s).spanned().any(|(t, _)| t.is_err()) { bad = Some(s); break; }
        }
    }
    match bad {
        | Some(s) => {
            println!("{{\"holds\":false,\"tried\":{n},\"input\":{}}}", esc(&s));
            1
        }
        | None => {
            println!("{{\"holds\":true,\"tried\":{n}}}");
            0
        }
    }
}
