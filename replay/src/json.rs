//! Minimal JSON string escaping (no serde: keep the dependency set to what /repo already pins).
pub fn esc(s: &str) -> String {
    let mut o = String::with_capacity(s.len() + 2);
    o.push('"');
    for c in s.chars() {
        match c {
            | '"' => o.push_str("\\\""),
            | '\\' => o.push_str("\\\\"),
            | '\n' => o.push_str("\\n"),
            | '\r' => o.push_str("\\r"),
            | '\t' => o.push_str("\\t"),
            | c if (c as u32) < 0x20 => o.push_str(&format!("\\u{:04x}", c as u32)),
            | c => o.push(c),
        }
    }
    o.push('"');
    o
}
