// Generated on every run by /verif/vf/extract.py from /repo's working tree. Item text is copied byte for byte.
#![allow(unused)]
use std::rc::Rc;
use zydeco_dynamics::syntax::*;
type ZValue = SemValue;
type ZCompute = Computation;
pub trait AsSliceIdentity<T> { fn as_slice(&self) -> &[T]; }
impl<T> AsSliceIdentity<T> for [T] { fn as_slice(&self) -> &[T] { self } }

/*@fn lang/dynamics/src/impls.rs :: fn mk_rc
  plain
@*/
/*@end*/
/*@fn lang/dynamics/src/impls.rs :: fn ret
  plain
@*/
/*@end*/
/*@fn lang/dynamics/src/impls.rs :: fn integer_to_string
  plain
  vec_as_slice args
@*/
/*@end*/
/*@fn lang/dynamics/src/impls.rs :: fn float_to_string
  plain
  vec_as_slice args
@*/
/*@end*/
/*@type lang/dynamics/src/impls.rs :: struct Branch @*/
impl Branch {
/*@fn lang/dynamics/src/impls.rs :: impl Branch :: fn select
  plain
@*/
/*@end*/
}
// the comparison helpers the two functions call (integer_comparison / float_comparison, whatever they are: fn or macro) are pulled in
// by the dependency closure, so a change of their form is not a lost anchor
/*@fn lang/dynamics/src/impls.rs :: fn integer_branch
  plain
  vec_as_slice args
  weaken_thunk_patterns
@*/
/*@end*/
/*@fn lang/dynamics/src/impls.rs :: fn float_branch
  plain
  vec_as_slice args
  weaken_thunk_patterns
@*/
/*@end*/
