//! Kani harnesses for property C05, rendering: the whole `integer_to_string` / `float_to_string` host functions (rule R9) hand
//! EXACTLY the literal they were given, at EXACTLY its own type, to std's `to_string`. std's formatting itself (core::fmt, which does
//! not fit CBMC) is replaced by a probe that records the type and the bytes of the value it is asked to render.
#![allow(unused, clippy::all)]
mod extracted;
use extracted::*;
use zydeco_dynamics::syntax::*;

#[cfg(kani)]
mod render {
    use super::*;
    /// PROBE standing in for `<T as ToString>::to_string` (every T): records WHAT it was asked to render -- the kind of value by its size
    /// (an IntegerLiteral, a 4-, 8- or 16-byte scalar) and the value itself -- and returns a fixed text
    static mut P_KIND: u8 = 0;
    static mut P_VAL: u128 = 0;
    static mut P_TY: u8 = 0;
    static mut P_CALLS: u8 = 0;
    fn type_index(t: Option<IntegerType>) -> u8 {
        match t { Some(IntegerType::Int8) => 1, Some(IntegerType::Int16) => 2, Some(IntegerType::Int32) => 3, Some(IntegerType::Int64) => 4,
                  Some(IntegerType::UInt8) => 5, Some(IntegerType::UInt16) => 6, Some(IntegerType::UInt32) => 7, Some(IntegerType::UInt64) => 8, None => 0 }
    }
    fn probe_to_string<T: ?Sized>(x: &T) -> String {
        let n = core::mem::size_of_val(x);
        let p = x as *const T as *const u8;
        unsafe {
            P_CALLS += 1;
            if n == core::mem::size_of::<IntegerLiteral>() {
                let lit = &*(p as *const IntegerLiteral);
                P_KIND = 1; P_VAL = lit.value() as u128; P_TY = type_index(lit.integer_type());
            } else if n == 4 { P_KIND = 2; P_VAL = core::ptr::read_unaligned(p as *const u32) as u128; }
            else if n == 8 { P_KIND = 3; P_VAL = core::ptr::read_unaligned(p as *const u64) as u128; }
            else if n == 16 { P_KIND = 4; P_VAL = core::ptr::read_unaligned(p as *const u128); }
            else { P_KIND = 9; }
        }
        String::new()
    }
    fn returned_string(r: &Result<Computation, i32>) -> bool {
        match r { Ok(Computation::Ret(Return(v))) => matches!(v.as_ref(), Value::SemValue(SemValue::Literal(Literal::String(_)))), _ => false }
    }
    fn any_integer_type() -> IntegerType {
        let k: u8 = kani::any();
        match k % 8 { 0 => IntegerType::Int8, 1 => IntegerType::Int16, 2 => IntegerType::Int32, 3 => IntegerType::Int64, 4 => IntegerType::UInt8, 5 => IntegerType::UInt16, 6 => IntegerType::UInt32, _ => IntegerType::UInt64 }
    }
    /// whole integer_to_string at EVERY type and EVERY value of that type: it returns a String literal, and the one thing it asks std to
    /// render is exactly the IntegerLiteral it was given (same carrier, same value) -- not its word image, a widened or a re-typed value
    #[kani::proof]
    #[kani::unwind(3)]
    #[kani::stub(<IntegerLiteral as std::string::ToString>::to_string, probe_to_string)]
    fn integer_to_string_whole() {
        let ty = any_integer_type();
        let v: i128 = kani::any();
        let Some(lit) = IntegerLiteral::new(v).with_type(ty) else { return };
        let args = [SemValue::Literal(Literal::Integer(lit))];
        let r = integer_to_string(ty, &args);
        let ok = returned_string(&r);
        core::mem::forget(r); core::mem::forget(args);
        unsafe { assert!(ok && P_CALLS == 1 && P_KIND == 1 && P_VAL == v as u128 && P_TY == type_index(Some(ty))); }
    }
    /// whole float_to_string at both widths over ALL bit patterns: the one thing it asks std to render is the f32 / f64 with exactly
    /// those bits, at that width (a binary32 is not rendered through binary64)
    #[kani::proof]
    #[kani::unwind(3)]
    #[kani::stub(<f32 as std::string::ToString>::to_string, probe_to_string)]
    fn float_to_string_whole() {
        let bits64: u64 = kani::any();
        let bits32: u32 = kani::any();
        let wide: bool = kani::any();
        let (ty, lit) = if wide { (FloatType::Float64, FloatLiteral::Float64(bits64)) } else { (FloatType::Float32, FloatLiteral::Float32(bits32)) };
        let args = [SemValue::Literal(Literal::Float(lit))];
        let r = float_to_string(ty, &args);
        let ok = returned_string(&r);
        core::mem::forget(r); core::mem::forget(args);
        unsafe { assert!(ok && P_CALLS == 1 && (if wide { P_KIND == 3 && P_VAL == bits64 as u128 } else { P_KIND == 2 && P_VAL == bits32 as u128 })); }
    }
}
// ---------- whole integer_branch / float_branch (rules R9 + R11), with Branch::select replaced by its contract ----------
// `Branch::select(c, t, f)` forces t iff c (proved on the real helper by `branch::branch_select_contract` below and by unit c06_kani
// select::branch_select_order). Behind a symbolic condition its clone of the chosen continuation does not finish in CBMC (measured,
// 20 min), so in the whole-function harnesses it is replaced (kani::stub) by a stub that reports WHICH continuation was chosen.
#[cfg(kani)]
mod branch {
    use super::*;
    fn marker(v: i64) -> SemValue { SemValue::Literal(Literal::Integer(IntegerLiteral::Int64(v))) }
    fn marker_of(v: &SemValue) -> i32 { match v { SemValue::Literal(Literal::Integer(IntegerLiteral::Int64(m))) => *m as i32, _ => -1 } }
    /// CONTRACT STUB: Err(1000 + marker of the continuation that would be forced)
    fn select_stub(condition: bool, when_true: &SemValue, when_false: &SemValue) -> Result<Computation, i32> {
        Err(1000 + marker_of(if condition { when_true } else { when_false }))
    }
    /// the real Branch::select, both conditions: forces `when_true` iff the condition holds, and nothing else
    #[kani::proof]
    fn branch_select_contract() {
        let c: bool = kani::any();
        let (t, f) = (marker(11), marker(12));
        let r = Branch::select(c, &t, &f);
        let got = match &r { Ok(Computation::Force(Force(v))) => match v.as_ref() { Value::SemValue(s) => marker_of(s), _ => -2 }, _ => -3 };
        core::mem::forget(r); core::mem::forget(t); core::mem::forget(f);
        assert!(got == if c { 11 } else { 12 });
    }
    fn any_cmp() -> IntegerOperation { let k: u8 = kani::any(); match k % 3 { 0 => IntegerOperation::Eq, 1 => IntegerOperation::Lt, _ => IntegerOperation::Gt } }
    fn any_fcmp() -> FloatOperation { let k: u8 = kani::any(); match k % 3 { 0 => FloatOperation::Eq, 1 => FloatOperation::Lt, _ => FloatOperation::Gt } }
    /// whole integer_branch at one type, ALL operand pairs and the three comparisons: destructures [first, second, when_true, when_false]
    /// in that order, compares (first, second) IN THE CARRIER'S OWN DOMAIN (signed as signed, unsigned as unsigned) and selects
    /// when_true (3rd) iff the comparison holds
    macro_rules! int_branch {
        ($name:ident, $ty:ident, $prim:ty) => {
            #[kani::proof]
            #[kani::stub(extracted::Branch::select, select_stub)]
            fn $name() {
                let (a, b): ($prim, $prim) = (kani::any(), kani::any());
                let op = any_cmp();
                let args = [SemValue::Literal(Literal::Integer(IntegerLiteral::$ty(a))), SemValue::Literal(Literal::Integer(IntegerLiteral::$ty(b))), marker(11), marker(12)];
                let r = integer_branch(IntegerType::$ty, op, &args);
                let got = r.as_ref().err().copied();
                core::mem::forget(r); core::mem::forget(args);
                let holds = match op { IntegerOperation::Eq => a == b, IntegerOperation::Lt => (a as i128) < (b as i128), _ => (a as i128) > (b as i128) };
                assert!(got == Some(if holds { 1011 } else { 1012 }));
            }
        };
    }
    int_branch!(integer_branch_whole_int8, Int8, i8);
    int_branch!(integer_branch_whole_int16, Int16, i16);
    int_branch!(integer_branch_whole_int32, Int32, i32);
    int_branch!(integer_branch_whole_int64, Int64, i64);
    int_branch!(integer_branch_whole_uint8, UInt8, u8);
    int_branch!(integer_branch_whole_uint16, UInt16, u16);
    int_branch!(integer_branch_whole_uint32, UInt32, u32);
    int_branch!(integer_branch_whole_uint64, UInt64, u64);
    /// whole float_branch at both widths, ALL bit patterns: IEEE comparison at that width (NaN unordered, -0 == +0), operands in order
    #[kani::proof]
    #[kani::stub(extracted::Branch::select, select_stub)]
    fn float_branch_whole_f64() {
        let (a, b): (u64, u64) = (kani::any(), kani::any());
        let op = any_fcmp();
        let args = [SemValue::Literal(Literal::Float(FloatLiteral::Float64(a))), SemValue::Literal(Literal::Float(FloatLiteral::Float64(b))), marker(11), marker(12)];
        let r = float_branch(FloatType::Float64, op, &args);
        let got = r.as_ref().err().copied();
        core::mem::forget(r); core::mem::forget(args);
        let (x, y) = (f64::from_bits(a), f64::from_bits(b));
        let holds = match op { FloatOperation::Eq => x == y, FloatOperation::Lt => x < y, _ => x > y };
        assert!(got == Some(if holds { 1011 } else { 1012 }));
        // independent anchors of the IEEE order: NaN is unordered; the two zeros are equal
        if x.is_nan() || y.is_nan() { assert!(got == Some(1012)); }
        if a == 0 && b == 0x8000_0000_0000_0000 { assert!(got == Some(if matches!(op, FloatOperation::Eq) { 1011 } else { 1012 })); }
    }
    #[kani::proof]
    #[kani::stub(extracted::Branch::select, select_stub)]
    fn float_branch_whole_f32() {
        let (a, b): (u32, u32) = (kani::any(), kani::any());
        let op = any_fcmp();
        let args = [SemValue::Literal(Literal::Float(FloatLiteral::Float32(a))), SemValue::Literal(Literal::Float(FloatLiteral::Float32(b))), marker(11), marker(12)];
        let r = float_branch(FloatType::Float32, op, &args);
        let got = r.as_ref().err().copied();
        core::mem::forget(r); core::mem::forget(args);
        let (x, y) = (f32::from_bits(a), f32::from_bits(b));
        let holds = match op { FloatOperation::Eq => x == y, FloatOperation::Lt => x < y, _ => x > y };
        assert!(got == Some(if holds { 1011 } else { 1012 }));
        if x.is_nan() || y.is_nan() { assert!(got == Some(1012)); }
        if a == 0 && b == 0x8000_0000 { assert!(got == Some(if matches!(op, FloatOperation::Eq) { 1011 } else { 1012 })); }
    }
}
