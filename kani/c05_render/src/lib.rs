//! Kani harnesses for property C05, rendering: the whole `integer_to_string` / `float_to_string` host functions (rule R9) hand
//! EXACTLY the literal they were given, at EXACTLY its own type, to std's `to_string`. std's formatting itself (core::fmt, which does
//! not fit CBMC) is replaced by a probe that records the type and the bytes of the value it is asked to render.
#![allow(unused, clippy::all)]
mod extracted;
use extracted::*;
use zydeco_dynamics::syntax::*;

#[cfg(kani)]
mod render {
    use super::*;
    /// PROBE standing in for `<T as ToString>::to_string` (every T): records WHAT it was asked to render -- the kind of value by its size
    /// (an IntegerLiteral, a 4-, 8- or 16-byte scalar) and the value itself -- and returns a fixed text
    static mut P_KIND: u8 = 0;
    static mut P_VAL: u128 = 0;
    static mut P_TY: u8 = 0;
    static mut P_CALLS: u8 = 0;
    fn type_index(t: Option<IntegerType>) -> u8 {
        match t { Some(IntegerType::Int8) => 1, Some(IntegerType::Int16) => 2, Some(IntegerType::Int32) => 3, Some(IntegerType::Int64) => 4,
                  Some(IntegerType::UInt8) => 5, Some(IntegerType::UInt16) => 6, Some(IntegerType::UInt32) => 7, Some(IntegerType::UInt64) => 8, None => 0 }
    }
    fn probe_to_string<T: ?Sized>(x: &T) -> String {
        let n = core::mem::size_of_val(x);
        let p = x as *const T as *const u8;
        unsafe {
            P_CALLS += 1;
            if n == core::mem::size_of::<IntegerLiteral>() {
                let lit = &*(p as *const IntegerLiteral);
                P_KIND = 1; P_VAL = lit.value() as u128; P_TY = type_index(lit.integer_type());
            } else if n == 4 { P_KIND = 2; P_VAL = core::ptr::read_unaligned(p as *const u32) as u128; }
            else if n == 8 { P_KIND = 3; P_VAL = core::ptr::read_unaligned(p as *const u64) as u128; }
            else if n == 16 { P_KIND = 4; P_VAL = core::ptr::read_unaligned(p as *const u128); }
            else { P_KIND = 9; }
        }
        String::new()
    }
    fn returned_string(r: &Result<Computation, i32>) -> bool {
        match r { Ok(Computation::Ret(Return(v))) => matches!(v.as_ref(), Value::SemValue(SemValue::Literal(Literal::String(_)))), _ => false }
    }
    fn any_integer_type() -> IntegerType {
        let k: u8 = kani::any();
        match k % 8 { 0 => IntegerType::Int8, 1 => IntegerType::Int16, 2 => IntegerType::Int32, 3 => IntegerType::Int64, 4 => IntegerType::UInt8, 5 => IntegerType::UInt16, 6 => IntegerType::UInt32, _ => IntegerType::UInt64 }
    }
    /// whole integer_to_string at EVERY type and EVERY value of that type: it returns a String literal, and the one thing it asks std to
    /// render is exactly the IntegerLiteral it was given (same carrier, same value) -- not its word image, a widened or a re-typed value
    #[kani::proof]
    #[kani::unwind(3)]
    #[kani::stub(<IntegerLiteral as std::string::ToString>::to_string, probe_to_string)]
    fn integer_to_string_whole() {
        let ty = any_integer_type();
        let v: i128 = kani::any();
        let Some(lit) = IntegerLiteral::new(v).with_type(ty) else { return };
        let args = [SemValue::Literal(Literal::Integer(lit))];
        let r = integer_to_string(ty, &args);
        let ok = returned_string(&r);
        core::mem::forget(r); core::mem::forget(args);
        unsafe { assert!(ok && P_CALLS == 1 && P_KIND == 1 && P_VAL == v as u128 && P_TY == type_index(Some(ty))); }
    }
    /// whole float_to_string at both widths over ALL bit patterns: the one thing it asks std to render is the f32 / f64 with exactly
    /// those bits, at that width (a binary32 is not rendered through binary64)
    #[kani::proof]
    #[kani::unwind(3)]
    #[kani::stub(<f32 as std::string::ToString>::to_string, probe_to_string)]
    fn float_to_string_whole() {
        let bits64: u64 = kani::any();
        let bits32: u32 = kani::any();
        let wide: bool = kani::any();
        let (ty, lit) = if wide { (FloatType::Float64, FloatLiteral::Float64(bits64)) } else { (FloatType::Float32, FloatLiteral::Float32(bits32)) };
        let args = [SemValue::Literal(Literal::Float(lit))];
        let r = float_to_string(ty, &args);
        let ok = returned_string(&r);
        core::mem::forget(r); core::mem::forget(args);
        unsafe { assert!(ok && P_CALLS == 1 && (if wide { P_KIND == 3 && P_VAL == bits64 as u128 } else { P_KIND == 2 && P_VAL == bits32 as u128 })); }
    }
}
