// Generated on every run by /verif/vf/extract.py from /repo's working tree. Item text is copied byte for byte.
use zydeco_syntax::*;
/*@macro lang/dynamics/src/impls.rs :: macro integer_arithmetic_result @*/

/*@fn lang/dynamics/src/impls.rs :: fn integer_comparison
  plain
@*/
/*@end*/

/*@fn lang/dynamics/src/impls.rs :: fn float_comparison
  plain
@*/
/*@end*/
