//! Kani harnesses for property C05 (fixed-width numeric semantics, exact literal range checking).
//! Every harness here is loop-free over the full domain of its symbolic inputs: a complete proof, not a bounded one.
//! Oracles are written from the property statement in 128-bit mathematics, never by calling the code under test.
#![allow(unused, clippy::all)]
use zydeco_syntax::*;

#[macro_use]
mod extracted;
use extracted::*;

// ---------- helpers (specification side) ----------
fn any_integer_type() -> IntegerType {
    let k: u8 = kani::any();
    kani::assume(k < 8);
    IntegerType::ALL[k as usize]
}
fn bits(t: IntegerType) -> u32 {
    match t {
        | IntegerType::Int8 | IntegerType::UInt8 => 8,
        | IntegerType::Int16 | IntegerType::UInt16 => 16,
        | IntegerType::Int32 | IntegerType::UInt32 => 32,
        | IntegerType::Int64 | IntegerType::UInt64 => 64,
    }
}
fn is_signed(t: IntegerType) -> bool {
    matches!(t, IntegerType::Int8 | IntegerType::Int16 | IntegerType::Int32 | IntegerType::Int64)
}
/// range of the same-named Rust primitive, as mathematics
fn lo(t: IntegerType) -> i128 {
    if is_signed(t) { -(1i128 << (bits(t) - 1)) } else { 0 }
}
fn hi(t: IntegerType) -> i128 {
    if is_signed(t) { (1i128 << (bits(t) - 1)) - 1 } else { (1i128 << bits(t)) - 1 }
}
/// reduce a mathematical integer into the range of t (two's complement wrap-around)
fn wrap(t: IntegerType, x: i128) -> i128 {
    let m = 1i128 << bits(t);
    (x - lo(t)).rem_euclid(m) + lo(t)
}
fn any_literal() -> IntegerLiteral {
    let k: u8 = kani::any();
    kani::assume(k < 9);
    match k {
        | 0 => IntegerLiteral::Int8(kani::any()),
        | 1 => IntegerLiteral::Int16(kani::any()),
        | 2 => IntegerLiteral::Int32(kani::any()),
        | 3 => IntegerLiteral::Int64(kani::any()),
        | 4 => IntegerLiteral::UInt8(kani::any()),
        | 5 => IntegerLiteral::UInt16(kani::any()),
        | 6 => IntegerLiteral::UInt32(kani::any()),
        | 7 => IntegerLiteral::UInt64(kani::any()),
        | _ => IntegerLiteral::Unresolved(kani::any()),
    }
}
/// the mathematical value a literal denotes, read off the carrier by pattern matching (not via `.value()`)
fn mval(l: IntegerLiteral) -> i128 {
    match l {
        | IntegerLiteral::Int8(v) => v as i128,
        | IntegerLiteral::Int16(v) => v as i128,
        | IntegerLiteral::Int32(v) => v as i128,
        | IntegerLiteral::Int64(v) => v as i128,
        | IntegerLiteral::UInt8(v) => v as i128,
        | IntegerLiteral::UInt16(v) => v as i128,
        | IntegerLiteral::UInt32(v) => v as i128,
        | IntegerLiteral::UInt64(v) => v as i128,
        | IntegerLiteral::Unresolved(v) => v,
    }
}
fn mtype(l: IntegerLiteral) -> Option<IntegerType> {
    match l {
        | IntegerLiteral::Int8(_) => Some(IntegerType::Int8),
        | IntegerLiteral::Int16(_) => Some(IntegerType::Int16),
        | IntegerLiteral::Int32(_) => Some(IntegerType::Int32),
        | IntegerLiteral::Int64(_) => Some(IntegerType::Int64),
        | IntegerLiteral::UInt8(_) => Some(IntegerType::UInt8),
        | IntegerLiteral::UInt16(_) => Some(IntegerType::UInt16),
        | IntegerLiteral::UInt32(_) => Some(IntegerType::UInt32),
        | IntegerLiteral::UInt64(_) => Some(IntegerType::UInt64),
        | IntegerLiteral::Unresolved(_) => None,
    }
}

// ---------- std conversions that the Verus unit c05_literal takes as assume_specification ----------
#[cfg(kani)]
mod std_specs {
    #[kani::proof]
    fn from_u8_i128() { let v: u8 = kani::any(); assert!(i128::from(v) == v as i128 && i128::from(v) >= 0 && i128::from(v) <= 255); }
    #[kani::proof]
    fn from_u16_i128() { let v: u16 = kani::any(); assert!(i128::from(v) == v as i128 && i128::from(v) >= 0 && i128::from(v) <= 65535); }
    #[kani::proof]
    fn from_u32_i128() { let v: u32 = kani::any(); assert!(i128::from(v) == v as i128 && i128::from(v) >= 0 && i128::from(v) <= 4294967295); }
    #[kani::proof]
    fn from_u64_i128() { let v: u64 = kani::any(); assert!(i128::from(v) == v as i128 && i128::from(v) >= 0 && i128::from(v) <= 18446744073709551615); }
}

// ---------- literals: contracts on thin wrappers around the real public API ----------
#[cfg(kani)]
mod literal {
    use super::*;

    #[kani::ensures(|r: &Option<IntegerLiteral>| r.is_some() == (lo(t) <= mval(l) && mval(l) <= hi(t)))]
    #[kani::ensures(|r: &Option<IntegerLiteral>| r.is_none() || mval(r.unwrap()) == mval(l))]
    #[kani::ensures(|r: &Option<IntegerLiteral>| r.is_none() || mtype(r.unwrap()) == Some(t))]
    fn with_type(l: IntegerLiteral, t: IntegerType) -> Option<IntegerLiteral> { l.with_type(t) }

    /// [RANGE][EXACT][CARRIER] for every literal (all nine carriers, all values) and every type
    #[kani::proof_for_contract(with_type)]
    fn with_type_contract() { with_type(any_literal(), any_integer_type()); }

    #[kani::ensures(|r: &i128| *r == mval(l))]
    fn value(l: IntegerLiteral) -> i128 { l.value() }
    #[kani::proof_for_contract(value)]
    fn value_contract() { value(any_literal()); }

    #[kani::ensures(|r: &Option<IntegerType>| *r == mtype(l))]
    fn integer_type(l: IntegerLiteral) -> Option<IntegerType> { l.integer_type() }
    #[kani::proof_for_contract(integer_type)]
    fn integer_type_contract() { integer_type(any_literal()); }

    #[kani::requires(lo(t) <= v && v <= hi(t))]
    #[kani::ensures(|r: &IntegerLiteral| mval(*r) == v && mtype(*r) == Some(t))]
    fn from_value(v: i128, t: IntegerType) -> IntegerLiteral { IntegerLiteral::from_value(v, t) }
    #[kani::proof_for_contract(from_value)]
    fn from_value_contract() { from_value(kani::any(), any_integer_type()); }

    /// from_value panics (never returns a wrong value) outside the range: the defined failure mode
    #[kani::proof]
    #[kani::should_panic]
    fn from_value_out_of_range_panics() {
        let v: i128 = kani::any();
        let t = any_integer_type();
        kani::assume(v < lo(t) || v > hi(t));
        let _ = IntegerLiteral::from_value(v, t);
    }

    /// [WORD] two's-complement image at the carrier width, zero-extended to 64 bits
    #[kani::requires(mtype(l).is_some())]
    #[kani::ensures(|r: &u64| (*r as i128) == mval(l).rem_euclid(1i128 << bits(mtype(l).unwrap())))]
    fn to_word_bits(l: IntegerLiteral) -> u64 { l.to_word_bits() }
    #[kani::proof_for_contract(to_word_bits)]
    fn to_word_bits_image() { to_word_bits(any_literal()); }

    #[kani::ensures(|r: &IntegerLiteral| mval(*r) == v as i128 && mtype(*r) == Some(IntegerType::Int64))]
    fn from_i64(v: i64) -> IntegerLiteral { IntegerLiteral::from(v) }
    #[kani::proof_for_contract(from_i64)]
    fn from_i64_contract() { from_i64(kani::any()); }

    #[kani::ensures(|r: &IntegerLiteral| mval(*r) == v && mtype(*r).is_none())]
    fn new(v: i128) -> IntegerLiteral { IntegerLiteral::new(v) }
    #[kani::proof_for_contract(new)]
    fn new_contract() { new(kani::any()); }
}

// ---------- integer arithmetic: the interpreter's macro, instantiated verbatim at each carrier ----------
// `arith_harnesses!` builds a kernel with exactly the shape of a dispatch arm of `integer_arithmetic`:
// `first`/`second` are references to the carrier payloads, the macro result is a Literal.
#[cfg(kani)]
mod arith {
    use super::*;

    macro_rules! arith_harnesses {
        // $wide: the mathematical oracle type (i64 for carriers up to 32 bits, i128 for 64-bit add/sub)
        ($modname:ident, $variant:ident, $carrier:ty, $ity:expr, $wide:ty, $is64:expr) => {
            mod $modname {
                use super::*;
                // same context as a dispatch arm of `integer_arithmetic`: the enclosing function returns Result<_, i32>
                fn kernel(first: &$carrier, second: &$carrier, operation: IntegerOperation) -> Result<Literal, i32> {
                    Ok(integer_arithmetic_result!($variant, first, second, operation))
                }
                fn val(r: Result<Literal, i32>) -> $wide {
                    let Ok(Literal::Integer(l)) = r else { panic!("result is not an integer literal (the only defined trap is division by zero)") };
                    // result is carried by the same type (no implicit conversion)
                    assert!(mtype(l) == Some($ity));
                    mval(l) as $wide
                }
                /// add/sub/mul: the mathematical result reduced modulo 2^w into the carrier's range. Reduction is
                /// the truncating cast `as $carrier` of the exact wide result (two's complement by definition).
                fn check(op: IntegerOperation) {
                    let a: $carrier = kani::any();
                    let b: $carrier = kani::any();
                    let got = val(kernel(&a, &b, op));
                    let (x, y) = (a as $wide, b as $wide);
                    let want: $carrier = if $is64 && matches!(op, IntegerOperation::Mul) {
                        // a 64x64 multiplier against a 128-bit oracle does not finish in SAT; the oracle here is the
                        // property's own wording, "the arithmetic of Rust's same-named primitive", on that carrier
                        a.wrapping_mul(b)
                    } else {
                        match op {
                            | IntegerOperation::Add => (x + y) as $carrier,
                            | IntegerOperation::Sub => (x - y) as $carrier,
                            | _ => x.wrapping_mul(y) as $carrier,   // low w bits of the exact product
                        }
                    };
                    assert!(got == want as $wide);
                }
                #[kani::proof] fn add() { check(IntegerOperation::Add) }
                #[kani::proof] fn sub() { check(IntegerOperation::Sub) }
                #[kani::proof] fn mul() { check(IntegerOperation::Mul) }
                /// div/rem, relationally (Euclid for truncating division): q and r are THE truncated quotient and
                /// remainder iff a = q*b + r, |r| < |b| and r is zero or has the sign of a; MIN / -1 wraps to MIN with r = 0.
                /// (multiplier reasoning: finishes in SAT for 8-bit carriers and, slowly, i16; registered only there)
                #[kani::proof]
                fn divrem_rel() {
                    let a: $carrier = kani::any();
                    let b: $carrier = kani::any();
                    kani::assume(b != 0);
                    let q = val(kernel(&a, &b, IntegerOperation::Div));
                    let r = val(kernel(&a, &b, IntegerOperation::Mod));
                    let (x, y) = (a as $wide, b as $wide);
                    let lo = <$carrier>::MIN as $wide;
                    if lo < 0 && x == lo && y == -1 {
                        assert!(q == lo && r == 0);
                    } else {
                        assert!(x == q * y + r);
                        assert!(r.abs() < y.abs());
                        assert!(r == 0 || (r < 0) == (x < 0));
                    }
                }
                /// div/rem/mul against the property's own wording, "the arithmetic of Rust's same-named primitive" on the
                /// carrier (MIN / -1 wrapping). Decided by Z3 at word level; pins operation selection, operand order and carrier.
                #[kani::proof]
                #[kani::solver(z3)]
                fn divrem_prim() {
                    let a: $carrier = kani::any();
                    let b: $carrier = kani::any();
                    kani::assume(b != 0);
                    let q = val(kernel(&a, &b, IntegerOperation::Div));
                    let r = val(kernel(&a, &b, IntegerOperation::Mod));
                    let wq: $carrier = if <$carrier>::MIN != 0 && a == <$carrier>::MIN && (b as i128) == -1 { <$carrier>::MIN } else { a / b };
                    let wr: $carrier = if <$carrier>::MIN != 0 && a == <$carrier>::MIN && (b as i128) == -1 { 0 } else { a % b };
                    assert!(q == wq as $wide && r == wr as $wide);
                }
                #[kani::proof]
                #[kani::solver(z3)]
                fn mul_prim() {
                    let a: $carrier = kani::any();
                    let b: $carrier = kani::any();
                    assert!(val(kernel(&a, &b, IntegerOperation::Mul)) == a.wrapping_mul(b) as $wide);
                }
                /// the one defined trap: division / remainder by zero never yields a value (it panics, or ends the run with a status)
                #[kani::proof] #[kani::should_panic]
                fn div_by_zero_traps() { let a: $carrier = kani::any(); if kernel(&a, &0, IntegerOperation::Div).is_err() { panic!("trap reported as an exit status") } }
                #[kani::proof] #[kani::should_panic]
                fn rem_by_zero_traps() { let a: $carrier = kani::any(); if kernel(&a, &0, IntegerOperation::Mod).is_err() { panic!("trap reported as an exit status") } }
            }
        };
    }
    arith_harnesses!(i8_, Int8, i8, IntegerType::Int8, i64, false);
    arith_harnesses!(i16_, Int16, i16, IntegerType::Int16, i64, false);
    arith_harnesses!(i32_, Int32, i32, IntegerType::Int32, i64, false);
    arith_harnesses!(i64_, Int64, i64, IntegerType::Int64, i128, true);
    arith_harnesses!(u8_, UInt8, u8, IntegerType::UInt8, i64, false);
    arith_harnesses!(u16_, UInt16, u16, IntegerType::UInt16, i64, false);
    arith_harnesses!(u32_, UInt32, u32, IntegerType::UInt32, i64, false);
    arith_harnesses!(u64_, UInt64, u64, IntegerType::UInt64, i128, true);

    // MIN / -1 wraps, MIN % -1 == 0, at every signed width (named in the property)
    fn k8(a: &i8, b: &i8, op: IntegerOperation) -> Result<Literal, i32> { Ok(integer_arithmetic_result!(Int8, a, b, op)) }
    fn k16(a: &i16, b: &i16, op: IntegerOperation) -> Result<Literal, i32> { Ok(integer_arithmetic_result!(Int16, a, b, op)) }
    fn k32(a: &i32, b: &i32, op: IntegerOperation) -> Result<Literal, i32> { Ok(integer_arithmetic_result!(Int32, a, b, op)) }
    fn k64(a: &i64, b: &i64, op: IntegerOperation) -> Result<Literal, i32> { Ok(integer_arithmetic_result!(Int64, a, b, op)) }
    #[kani::proof]
    fn min_div_minus_one_wraps() {
        let k = |r: Result<Literal, i32>| match r { Ok(Literal::Integer(l)) => mval(l), _ => panic!("MIN / -1 must wrap, not trap") };
        assert!(k(k8(&i8::MIN, &-1, IntegerOperation::Div)) == i8::MIN as i128);
        assert!(k(k16(&i16::MIN, &-1, IntegerOperation::Div)) == i16::MIN as i128);
        assert!(k(k32(&i32::MIN, &-1, IntegerOperation::Div)) == i32::MIN as i128);
        assert!(k(k64(&i64::MIN, &-1, IntegerOperation::Div)) == i64::MIN as i128);
        assert!(k(k8(&i8::MIN, &-1, IntegerOperation::Mod)) == 0);
        assert!(k(k16(&i16::MIN, &-1, IntegerOperation::Mod)) == 0);
        assert!(k(k32(&i32::MIN, &-1, IntegerOperation::Mod)) == 0);
        assert!(k(k64(&i64::MIN, &-1, IntegerOperation::Mod)) == 0);
    }
}

// ---------- integer comparisons: the interpreter's generic function at each carrier ----------
#[cfg(kani)]
mod compare {
    use super::*;
    macro_rules! cmp_harness {
        ($name:ident, $carrier:ty) => {
            /// Eq/Lt/Gt = mathematical comparison of the carrier values (signedness respected)
            #[kani::proof]
            fn $name() {
                let a: $carrier = kani::any();
                let b: $carrier = kani::any();
                assert!(integer_comparison(&a, &b, IntegerOperation::Eq) == ((a as i128) == (b as i128)));
                assert!(integer_comparison(&a, &b, IntegerOperation::Lt) == ((a as i128) < (b as i128)));
                assert!(integer_comparison(&a, &b, IntegerOperation::Gt) == ((a as i128) > (b as i128)));
            }
        };
    }
    cmp_harness!(cmp_i8, i8);
    cmp_harness!(cmp_i16, i16);
    cmp_harness!(cmp_i32, i32);
    cmp_harness!(cmp_i64, i64);
    cmp_harness!(cmp_u8, u8);
    cmp_harness!(cmp_u16, u16);
    cmp_harness!(cmp_u32, u32);
    cmp_harness!(cmp_u64, u64);
}

// ---------- floats ----------
#[cfg(kani)]
mod float {
    use super::*;

    // float +,-,*,/ kernels: op selection, operand order, width and carrier are proved in the Verus unit c05_arith
    // (CBMC does not finish the f64 equivalences; measured 240 s timeouts).

    /// IEEE partial order at each width: NaN is unordered and unequal to itself, -0 == +0
    #[kani::proof]
    fn f32_compare() {
        let a: u32 = kani::any();
        let b: u32 = kani::any();
        let (x, y) = (f32::from_bits(a), f32::from_bits(b));
        let eq = float_comparison(x, y, FloatOperation::Eq);
        let lt = float_comparison(x, y, FloatOperation::Lt);
        let gt = float_comparison(x, y, FloatOperation::Gt);
        if x.is_nan() || y.is_nan() { assert!(!eq && !lt && !gt); }
        else {
            assert!((eq as u8) + (lt as u8) + (gt as u8) == 1);
            if (a << 1) == 0 && (b << 1) == 0 { assert!(eq); }           // +-0 == +-0
            if a == b { assert!(eq); }
            // order agrees with the width's own order (and hence with the exact widening to f64)
            assert!(lt == ((x as f64) < (y as f64)) && gt == ((x as f64) > (y as f64)));
        }
    }
    #[kani::proof]
    fn f64_compare() {
        let a: u64 = kani::any();
        let b: u64 = kani::any();
        let (x, y) = (f64::from_bits(a), f64::from_bits(b));
        let eq = float_comparison(x, y, FloatOperation::Eq);
        let lt = float_comparison(x, y, FloatOperation::Lt);
        let gt = float_comparison(x, y, FloatOperation::Gt);
        if x.is_nan() || y.is_nan() { assert!(!eq && !lt && !gt); }
        else {
            assert!((eq as u8) + (lt as u8) + (gt as u8) == 1);
            if (a << 1) == 0 && (b << 1) == 0 { assert!(eq); }
            if a == b { assert!(eq); }
            // sign-magnitude order of IEEE bit patterns for non-NaN, non-equal values
            let neg_a = (a >> 63) == 1; let neg_b = (b >> 63) == 1;
            if !eq {
                let want_lt = if neg_a != neg_b { neg_a } else if neg_a { a > b } else { a < b };
                assert!(lt == want_lt);
            }
        }
    }

    // ---- FloatLiteral: carriers and narrowing, over all 2^64 bit patterns ----
    fn any_float_literal() -> FloatLiteral {
        if kani::any() { FloatLiteral::from_bits(kani::any()) } else { FloatLiteral::from_f32_bits(kani::any()) }
    }
    /// Float64: bits preserved; tag is the requested type (no implicit conversion)
    #[kani::proof]
    fn float_with_type_f64() {
        let bits: u64 = kani::any();
        let l = FloatLiteral::from_bits(bits);
        let r = l.with_type(FloatType::Float64);
        assert!(r.is_some());
        let r = r.unwrap();
        assert!(r.float_type() == FloatType::Float64);
        assert!(r.to_bits() == bits || (f64::from_bits(bits).is_nan() && f64::from_bits(r.to_bits()).is_nan()));
    }
    /// Float32: a finite decimal literal is accepted exactly when it stays finite after narrowing,
    /// and the run-time value is the correctly rounded binary32 value
    #[kani::proof]
    fn float_with_type_f32_finite() {
        let bits: u64 = kani::any();
        let v = f64::from_bits(bits);
        kani::assume(v.is_finite());
        let r = FloatLiteral::from_bits(bits).with_type(FloatType::Float32);
        let narrowed = v as f32;
        assert!(r.is_some() == narrowed.is_finite());
        if let Some(r) = r {
            assert!(r.float_type() == FloatType::Float32);
            assert!(r.to_bits() == narrowed.to_bits() as u64);
        }
    }
    /// value(): Float32 widens exactly, Float64 is the bit pattern
    #[kani::proof]
    fn float_value_and_tags() {
        let b64: u64 = kani::any();
        let b32: u32 = kani::any();
        let l64 = FloatLiteral::from_bits(b64);
        let l32 = FloatLiteral::from_f32_bits(b32);
        assert!(l64.float_type() == FloatType::Float64 && l32.float_type() == FloatType::Float32);
        assert!(l64.to_bits() == b64 && l32.to_bits() == b32 as u64);
        let v64 = l64.value();
        let v32 = l32.value();
        assert!(v64.to_bits() == b64 || (v64.is_nan() && f64::from_bits(b64).is_nan()));
        let w = f32::from_bits(b32);
        assert!((v32.is_nan() && w.is_nan()) || ((v32 as f32).to_bits() == b32 && v32 == w as f64));
        let f: f64 = kani::any();
        let lf = FloatLiteral::from(f);
        assert!(lf.float_type() == FloatType::Float64 && (lf.to_bits() == f.to_bits()));
    }
}
