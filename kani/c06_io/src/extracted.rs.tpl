// Generated on every run by /verif/vf/extract.py from /repo's working tree. Item text is copied byte for byte.
// The I/O host functions as wholes (rules R9 + R11), verified MODULARLY: `HostRuntime` here is a CONTRACT STAND-IN whose methods
// behave exactly as the contracts proved for the real methods in Verus unit c06_host allow (a caller is checked against the
// callee's contract, not its body). Its choices (is the handle open? does the OS call succeed? with which error category?) are
// fields set by the harness.
#![allow(unused)]
use std::io::{self, BufRead, Read, Write};
use std::rc::Rc;
use zydeco_dynamics::syntax::*;
use zydeco_dynamics::host::{HostValue, ReaderHandle, WriterHandle};
type ZValue = SemValue;
type ZCompute = Computation;
pub trait AsSliceIdentity<T> { fn as_slice(&self) -> &[T]; }
impl<T> AsSliceIdentity<T> for [T] { fn as_slice(&self) -> &[T] { self } }

/*@fn lang/dynamics/src/impls.rs :: fn mk_rc
  plain
@*/
/*@end*/
/*@fn lang/dynamics/src/impls.rs :: fn app
  plain
@*/
/*@end*/
/*@type lang/dynamics/src/impls.rs :: struct HostContinuation @*/
impl HostContinuation {
/*@fn lang/dynamics/src/impls.rs :: impl HostContinuation :: fn force
  plain
@*/
/*@end*/
/*@fn lang/dynamics/src/impls.rs :: impl HostContinuation :: fn one
  plain
@*/
/*@end*/
/*@fn lang/dynamics/src/impls.rs :: impl HostContinuation :: fn two
  plain
@*/
/*@end*/
/*@fn lang/dynamics/src/impls.rs :: impl HostContinuation :: fn io_error
  plain
@*/
/*@end*/
}
/*@type lang/dynamics/src/impls.rs :: struct HostBytes @*/
impl HostBytes {
/*@fn lang/dynamics/src/impls.rs :: impl HostBytes :: fn borrow
  plain
@*/
/*@end*/
/*@fn lang/dynamics/src/impls.rs :: impl HostBytes :: fn value
  plain
@*/
/*@end*/
}
/*@type lang/dynamics/src/host.rs :: enum HostIoErrorKind
   derive Clone, Copy, Debug, PartialEq, Eq
@*/
impl HostIoErrorKind {
/*@fn lang/dynamics/src/host.rs :: impl HostIoErrorKind :: fn from_error
  plain
@*/
/*@end*/
}
/*@type lang/dynamics/src/host.rs :: struct HostIoError @*/
impl HostIoError {
/*@fn lang/dynamics/src/host.rs :: impl HostIoError :: fn closed
  plain
@*/
/*@end*/
}

/// a writable resource that records whether anything reached it
pub struct ModelWriter { pub written: usize, pub flushed: bool, pub fail: Option<io::ErrorKind> }
impl Write for ModelWriter {
    fn write(&mut self, buf: &[u8]) -> io::Result<usize> {
        if let Some(k) = self.fail { return Err(io::Error::from(k)); }
        self.written += buf.len();
        Ok(buf.len())
    }
    fn flush(&mut self) -> io::Result<()> {
        if let Some(k) = self.fail { return Err(io::Error::from(k)); }
        self.flushed = true;
        Ok(())
    }
}
/// a readable resource over fixed bytes that records how much was consumed
pub struct ModelReader { pub data: &'static [u8], pub pos: usize, pub fail: Option<io::ErrorKind> }
impl Read for ModelReader {
    fn read(&mut self, buf: &mut [u8]) -> io::Result<usize> {
        if let Some(k) = self.fail { return Err(io::Error::from(k)); }
        let rest = &self.data[self.pos..];
        let n = if rest.len() < buf.len() { rest.len() } else { buf.len() };
        buf[..n].copy_from_slice(&rest[..n]);
        self.pos += n;
        Ok(n)
    }
}
impl BufRead for ModelReader {
    fn fill_buf(&mut self) -> io::Result<&[u8]> {
        if let Some(k) = self.fail { return Err(io::Error::from(k)); }
        Ok(&self.data[self.pos..])
    }
    fn consume(&mut self, amt: usize) { self.pos += amt; }
}

pub struct HostRuntime {
    /// is the handle that will be asked for open? (the contracts speak about exactly this)
    pub open: bool,
    pub asked_reader: Option<ReaderHandle>,
    pub asked_writer: Option<WriterHandle>,
    pub closed_reader: Option<ReaderHandle>,
    pub closed_writer: Option<WriterHandle>,
    pub rfile: ModelReader,
    pub wfile: ModelWriter,
    /// what flushing on close reports for an open writer
    pub close_flush_fails: Option<io::ErrorKind>,
    /// what the operating system answers to an open request (None: success), the handle number a successful open issues,
    /// and a record of what was asked: (1 reader | 2 create-or-truncate | 3 append, length of the path)
    pub open_fails: Option<io::ErrorKind>,
    pub next: usize,
    pub opened: Option<(u8, usize)>,
}
impl HostRuntime {
    // c06_host [LOOKUP-RESULT], [LOOKUP-SAME], [LOOKUP-CLOSED-KIND]
    pub fn reader(&mut self, handle: ReaderHandle) -> io::Result<&mut ModelReader> {
        self.asked_reader = Some(handle);
        if self.open && handle != ReaderHandle::STDIN { Ok(&mut self.rfile) } else { Err(HostIoError::closed()) }
    }
    // c06_host [LOOKUPW-RESULT], [LOOKUPW-SAME], [LOOKUPW-CLOSED-KIND]
    pub fn writer(&mut self, handle: WriterHandle) -> io::Result<&mut ModelWriter> {
        self.asked_writer = Some(handle);
        if self.open && handle != WriterHandle::STDOUT && handle != WriterHandle::STDERR { Ok(&mut self.wfile) } else { Err(HostIoError::closed()) }
    }
    // c06_host [CLOSE-RESULT], [CLOSE-CLOSED-KIND]
    pub fn close_reader(&mut self, handle: ReaderHandle) -> io::Result<()> {
        self.closed_reader = Some(handle);
        if handle == ReaderHandle::STDIN || self.open { Ok(()) } else { Err(HostIoError::closed()) }
    }
    // c06_host [CLOSEW-RESULT], [CLOSEW-CLOSED-KIND]: an open handle reports what flush reports
    pub fn close_writer(&mut self, handle: WriterHandle) -> io::Result<()> {
        self.closed_writer = Some(handle);
        if handle == WriterHandle::STDOUT || handle == WriterHandle::STDERR { Ok(()) }
        else if self.open { match self.close_flush_fails { Some(k) => Err(io::Error::from(k)), None => Ok(()) } }
        else { Err(HostIoError::closed()) }
    }
    // c06_host [OPEN-FRESH], [OPEN-FRAME]: a fresh handle or an error, nothing else
    pub fn open_reader(&mut self, path: &str) -> io::Result<ReaderHandle> {
        self.opened = Some((1, path.len()));
        match self.open_fails { Some(k) => Err(io::Error::from(k)), None => Ok(unsafe { core::mem::transmute::<usize, ReaderHandle>(self.next) }) }
    }
    // c06_host [CREATE]
    pub fn create_writer(&mut self, path: &str) -> io::Result<WriterHandle> {
        self.opened = Some((2, path.len()));
        match self.open_fails { Some(k) => Err(io::Error::from(k)), None => Ok(unsafe { core::mem::transmute::<usize, WriterHandle>(self.next) }) }
    }
    // c06_host [APPEND]
    pub fn append_writer(&mut self, path: &str) -> io::Result<WriterHandle> {
        self.opened = Some((3, path.len()));
        match self.open_fails { Some(k) => Err(io::Error::from(k)), None => Ok(unsafe { core::mem::transmute::<usize, WriterHandle>(self.next) }) }
    }
}

/*@type lang/dynamics/src/impls.rs :: struct ReaderIo @*/
impl ReaderIo {
/*@fn lang/dynamics/src/impls.rs :: impl ReaderIo :: fn run
  plain
@*/
/*@end*/
}
/*@type lang/dynamics/src/impls.rs :: struct WriterIo @*/
impl WriterIo {
/*@fn lang/dynamics/src/impls.rs :: impl WriterIo :: fn run
  plain
@*/
/*@end*/
}
/*@fn lang/dynamics/src/impls.rs :: fn io_write_all
  plain
  vec_as_slice args
  weaken_thunk_patterns
@*/
/*@end*/
/*@fn lang/dynamics/src/impls.rs :: fn io_flush
  plain
  vec_as_slice args
  weaken_thunk_patterns
@*/
/*@end*/
/*@fn lang/dynamics/src/impls.rs :: fn io_close_reader
  plain
  vec_as_slice args
  weaken_thunk_patterns
@*/
/*@end*/
/*@fn lang/dynamics/src/impls.rs :: fn io_close_writer
  plain
  vec_as_slice args
  weaken_thunk_patterns
@*/
/*@end*/
/*@type lang/dynamics/src/impls.rs :: struct FileIo @*/
impl FileIo {
/*@fn lang/dynamics/src/impls.rs :: impl FileIo :: fn open
  plain
  weaken_thunk_patterns
@*/
/*@end*/
}
/*@fn lang/dynamics/src/impls.rs :: fn fs_open_reader
  plain
  vec_as_slice args
@*/
/*@end*/
/*@fn lang/dynamics/src/impls.rs :: fn fs_create_writer
  plain
  vec_as_slice args
@*/
/*@end*/
/*@fn lang/dynamics/src/impls.rs :: fn fs_append_writer
  plain
  vec_as_slice args
@*/
/*@end*/
/*@fn lang/dynamics/src/impls.rs :: fn io_read_line
  plain
  vec_as_slice args
  weaken_thunk_patterns
@*/
/*@end*/
/*@fn lang/dynamics/src/impls.rs :: fn io_read_all
  plain
  vec_as_slice args
  weaken_thunk_patterns
@*/
/*@end*/
/*@fn lang/dynamics/src/impls.rs :: fn io_read
  plain
  vec_as_slice args
  weaken_thunk_patterns
@*/
/*@end*/
/*@fn lang/dynamics/src/impls.rs :: fn write_str
  plain
  vec_as_slice args
  weaken_thunk_patterns
@*/
/*@end*/
