//! Kani harnesses for property C06, I/O part: the I/O host functions as wholes against the CONTRACT of HostRuntime (the contracts
//! proved for the real HostRuntime methods in Verus unit c06_host), with marker continuations (rule R11).
#![allow(unused, clippy::all)]
mod extracted;
use extracted::*;
use std::rc::Rc;
use zydeco_dynamics::syntax::*;

fn marker(v: i64) -> SemValue { SemValue::Literal(Literal::Integer(IntegerLiteral::Int64(v))) }

// ---------- the I/O host functions as wholes, against the CONTRACT of HostRuntime (modular: see extracted_io.rs) ----------
#[cfg(kani)]
mod io_hosts {
    use super::*;
    use std::io;
    use zydeco_dynamics::host::{HostValue, ReaderHandle, WriterHandle};
    // handles are `usize` newtypes with a private field; the harness needs EVERY handle value, not only the named constants
    fn wh(x: usize) -> WriterHandle { unsafe { core::mem::transmute::<usize, WriterHandle>(x) } }
    fn rh(x: usize) -> ReaderHandle { unsafe { core::mem::transmute::<usize, ReaderHandle>(x) } }
    fn any_kind() -> io::ErrorKind {
        let k: u8 = kani::any();
        match k { 0 => io::ErrorKind::NotFound, 1 => io::ErrorKind::PermissionDenied, 2 => io::ErrorKind::AlreadyExists, 3 => io::ErrorKind::InvalidInput,
                  4 => io::ErrorKind::InvalidData, 5 => io::ErrorKind::BrokenPipe, 6 => io::ErrorKind::NotConnected, _ => io::ErrorKind::Other }
    }
    fn host(open: bool) -> HostRuntime {
        HostRuntime { open, asked_reader: None, asked_writer: None, closed_reader: None, closed_writer: None,
                      rfile: ModelReader { data: b"", pos: 0, fail: None }, wfile: ModelWriter { written: 0, flushed: false, fail: None }, close_flush_fails: None,
                      open_fails: None, next: 7, opened: None }
    }
    /// WriterIo::run over EVERY handle value and both table states (complete, loop-free): the standard streams go to the injected
    /// stream and never to the table; any other handle goes to the table for THAT handle; a handle that is not open yields the
    /// "closed" error and the operation is not run on anything
    #[kani::proof]
    fn writer_run_routing() {
        let x: usize = kani::any();
        let open: bool = kani::any();
        let mut h = host(open);
        let mut out = ModelWriter { written: 0, flushed: false, fail: None };
        let r = WriterIo::run(wh(x), &mut out, &mut h, |w| w.write(&[1, 2, 3]));
        if x == 0 || x == 1 {
            assert!(matches!(r, Ok(3)) && out.written == 3 && h.wfile.written == 0 && h.asked_writer.is_none());
        } else if open {
            assert!(matches!(r, Ok(3)) && out.written == 0 && h.wfile.written == 3 && h.asked_writer == Some(wh(x)));
        } else {
            let closed = match &r { Err(e) => e.kind() == io::ErrorKind::NotConnected, Ok(_) => false };
            assert!(closed && out.written == 0 && h.wfile.written == 0);
        }
        core::mem::forget(r);
    }
    /// ReaderIo::run over EVERY handle value and both table states (complete, loop-free)
    #[kani::proof]
    fn reader_run_routing() {
        let x: usize = kani::any();
        let open: bool = kani::any();
        let mut h = host(open);
        h.rfile.data = b"file";
        let mut inp = ModelReader { data: b"stdin", pos: 0, fail: None };
        let r = ReaderIo::run(rh(x), &mut inp, &mut h, |r| { let n = r.fill_buf()?.len(); r.consume(n); Ok(n) });
        if x == 0 {
            assert!(matches!(r, Ok(5)) && inp.pos == 5 && h.rfile.pos == 0 && h.asked_reader.is_none());
        } else if open {
            assert!(matches!(r, Ok(4)) && inp.pos == 0 && h.rfile.pos == 4 && h.asked_reader == Some(rh(x)));
        } else {
            let closed = match &r { Err(e) => e.kind() == io::ErrorKind::NotConnected, Ok(_) => false };
            assert!(closed && inp.pos == 0 && h.rfile.pos == 0);
        }
        core::mem::forget(r);
    }

    macro_rules! call {
        ($f:ident, $args:expr, $out:expr, $host:expr) => {{
            let mut input = std::io::empty();
            $f($args, &mut input, $out, &[], $host)
        }};
    }
    fn forced(c: &Computation) -> Option<i64> {
        match c {
            | Computation::Force(Force(v)) => match v.as_ref() {
                | Value::SemValue(SemValue::Literal(Literal::Integer(IntegerLiteral::Int64(m)))) => Some(*m),
                | _ => None,
            },
            | _ => None,
        }
    }
    /// (continuation marker, number of arguments it is applied to, the first argument if it is an Int64)
    fn selected(r: &Result<Computation, i32>) -> Option<(i64, usize, Option<i64>)> {
        let Ok(c) = r.as_ref() else { return None };
        fn int_arg(v: &Value) -> Option<i64> { match v { Value::SemValue(SemValue::Literal(Literal::Integer(IntegerLiteral::Int64(k)))) => Some(*k), _ => None } }
        match c {
            | Computation::VApp(App(b1, a1)) => match b1.as_ref() {
                | Computation::VApp(App(b2, a2)) => forced(b2.as_ref()).map(|m| (m, 2, int_arg(a2.as_ref()))),
                | other => forced(other).map(|m| (m, 1, int_arg(a1.as_ref()))),
            },
            | other => forced(other).map(|m| (m, 0, None)),
        }
    }
    fn bytes3() -> SemValue { SemValue::Host(HostValue::Bytes(Rc::from([7u8, 8, 9]))) }

    /// CONTRACT STUB for HostContinuation::io_error in the whole-function harnesses below (the real io_error is proved against this
    /// contract by `io_error_contract`): "the error continuation is chosen and given the error's category" is encoded as Err(1000 + category)
    fn io_error_stub(continuation: &SemValue, error: io::Error) -> Result<Computation, i32> {
        let k = HostIoErrorKind::from_error(&error) as i64;
        let m = match continuation { SemValue::Literal(Literal::Integer(IntegerLiteral::Int64(m))) => *m, _ => -1 };
        core::mem::forget(error);
        Err((1000 * m + k) as i32)
    }
    fn stub_to_string<T: ?Sized>(e: &T) -> String { String::new() }
    /// the real HostContinuation::io_error, for EVERY error category and both representations (simple, custom message): the given
    /// continuation applied to exactly two arguments, the first being the stable category number of the error (complete; the message
    /// text is core::fmt, stubbed)
    #[kani::proof] #[kani::unwind(6)]
    #[kani::stub(<std::io::Error as std::string::ToString>::to_string, stub_to_string)]
    fn io_error_contract() {
        let m = marker(10);
        let kind = any_kind();
        let e = if kani::any() { io::Error::new(kind, "message") } else { io::Error::from(kind) };
        let want = HostIoErrorKind::from_error(&e) as i64;
        let r = HostContinuation::io_error(&m, e);
        let got = selected(&r);
        core::mem::forget(r); core::mem::forget(m);
        assert!(got == Some((10, 2, Some(want))));
    }
    /// whole io_write_all over EVERY writer handle, both table states: success continuation (4th argument) exactly when all bytes
    /// reached the device the handle names; a handle that is not open -> error continuation (3rd) with category 6 (Closed) and
    /// nothing written anywhere
    #[kani::proof] #[kani::unwind(2)]
    #[kani::stub(extracted::HostContinuation::io_error, io_error_stub)]
    fn io_write_all_whole() {
        let x: usize = kani::any();
        let open: bool = kani::any();
        let mut h = host(open);
        let mut out = ModelWriter { written: 0, flushed: false, fail: None };
        let args = [SemValue::Host(HostValue::Writer(wh(x))), bytes3(), marker(10), marker(11)];
        let r = call!(io_write_all, &args, &mut out, &mut h);
        let (got, err) = (selected(&r), r.as_ref().err().copied());
        core::mem::forget(r); core::mem::forget(args);
        if x == 0 || x == 1 { assert!(got == Some((11, 0, None)) && out.written == 3 && h.wfile.written == 0); }
        else if open { assert!(got == Some((11, 0, None)) && out.written == 0 && h.wfile.written == 3); }
        else { assert!(err == Some(10_006) && out.written == 0 && h.wfile.written == 0); }
    }

    fn any_failure() -> Option<io::ErrorKind> { if kani::any() { Some(any_kind()) } else { None } }
    fn category(k: io::ErrorKind) -> i32 { HostIoErrorKind::from_error(&io::Error::from(k)) as i32 }
    /// whole io_write_all when the DEVICE fails (every category, on whichever device the handle names): the error continuation
    /// with that failure's category -- failures are reported, never swallowed, never a panic
    #[kani::proof] #[kani::unwind(2)]
    #[kani::stub(extracted::HostContinuation::io_error, io_error_stub)]
    fn io_write_all_device_failure() {
        let x: usize = kani::any();
        let k = any_kind();
        let mut h = host(true);
        h.wfile.fail = Some(k);
        let mut out = ModelWriter { written: 0, flushed: false, fail: Some(k) };
        let args = [SemValue::Host(HostValue::Writer(wh(x))), bytes3(), marker(10), marker(11)];
        let r = call!(io_write_all, &args, &mut out, &mut h);
        let err = r.as_ref().err().copied();
        core::mem::forget(r); core::mem::forget(args);
        assert!(err == Some(10_000 + category(k)));
    }
    /// whole io_flush over EVERY writer handle, both table states, failing or succeeding device
    #[kani::proof] #[kani::unwind(2)]
    #[kani::stub(extracted::HostContinuation::io_error, io_error_stub)]
    fn io_flush_whole() {
        let x: usize = kani::any();
        let open: bool = kani::any();
        let fail = any_failure();
        let mut h = host(open);
        h.wfile.fail = fail;
        let mut out = ModelWriter { written: 0, flushed: false, fail };
        let args = [SemValue::Host(HostValue::Writer(wh(x))), marker(10), marker(11)];
        let r = call!(io_flush, &args, &mut out, &mut h);
        let (got, err) = (selected(&r), r.as_ref().err().copied());
        core::mem::forget(r); core::mem::forget(args);
        let named_open = x == 0 || x == 1 || open;
        match (named_open, fail) {
            | (false, _) => assert!(err == Some(10_006) && !out.flushed && !h.wfile.flushed),
            | (true, Some(k)) => assert!(err == Some(10_000 + category(k))),
            | (true, None) => assert!(got == Some((11, 0, None)) && out.flushed == (x == 0 || x == 1) && h.wfile.flushed == !(x == 0 || x == 1)),
        }
    }
    /// whole io_close_reader over EVERY reader handle and both table states: closing asks the table to close THAT handle; standard
    /// input and open handles -> success continuation; a closed handle -> error continuation with category 6
    #[kani::proof] #[kani::unwind(2)]
    #[kani::stub(extracted::HostContinuation::io_error, io_error_stub)]
    fn io_close_reader_whole() {
        let x: usize = kani::any();
        let open: bool = kani::any();
        let mut h = host(open);
        let mut out = ModelWriter { written: 0, flushed: false, fail: None };
        let args = [SemValue::Host(HostValue::Reader(rh(x))), marker(10), marker(11)];
        let r = call!(io_close_reader, &args, &mut out, &mut h);
        let (got, err) = (selected(&r), r.as_ref().err().copied());
        core::mem::forget(r); core::mem::forget(args);
        assert!(h.closed_reader == Some(rh(x)) && h.closed_writer.is_none());
        if x == 0 || open { assert!(got == Some((11, 0, None))); } else { assert!(err == Some(10_006)); }
    }
    /// whole io_close_writer over EVERY writer handle, both table states, failing or succeeding flush: the standard streams are
    /// flushed and never closed; any other handle is closed in the table (THAT handle); a flush failure on close and a closed
    /// handle are both reported through the error continuation
    #[kani::proof] #[kani::unwind(2)]
    #[kani::stub(extracted::HostContinuation::io_error, io_error_stub)]
    fn io_close_writer_whole() {
        let x: usize = kani::any();
        let open: bool = kani::any();
        let fail = any_failure();
        let mut h = host(open);
        h.close_flush_fails = fail;
        let mut out = ModelWriter { written: 0, flushed: false, fail };
        let args = [SemValue::Host(HostValue::Writer(wh(x))), marker(10), marker(11)];
        let r = call!(io_close_writer, &args, &mut out, &mut h);
        let (got, err) = (selected(&r), r.as_ref().err().copied());
        core::mem::forget(r); core::mem::forget(args);
        if x == 0 || x == 1 {
            assert!(h.closed_writer.is_none());
            match fail { None => assert!(got == Some((11, 0, None)) && out.flushed), Some(k) => assert!(err == Some(10_000 + category(k))) }
        } else {
            assert!(h.closed_writer == Some(wh(x)) && !out.flushed && h.closed_reader.is_none());
            match (open, fail) {
                | (false, _) => assert!(err == Some(10_006)),
                | (true, None) => assert!(got == Some((11, 0, None))),
                | (true, Some(k)) => assert!(err == Some(10_000 + category(k))),
            }
        }
    }
    /// whole fs_open_reader / fs_create_writer / fs_append_writer (through FileIo::open): each asks the table for ITS kind of open
    /// (create-or-truncate and append are not interchangeable) with the given path; success -> success continuation (3rd argument)
    /// applied to a capability of the declared kind carrying the issued handle; failure (every category) -> error continuation
    fn opened_capability(r: &Result<Computation, i32>) -> Option<(bool, usize)> {
        match r { Ok(Computation::VApp(App(_, a))) => match a.as_ref() {
            | Value::SemValue(SemValue::Host(HostValue::Reader(h))) => Some((true, unsafe { core::mem::transmute::<ReaderHandle, usize>(*h) })),
            | Value::SemValue(SemValue::Host(HostValue::Writer(h))) => Some((false, unsafe { core::mem::transmute::<WriterHandle, usize>(*h) })),
            | _ => None }, _ => None }
    }
    fn check_open(which: u8) {
        let fail = any_failure();
        let mut h = host(false);
        h.open_fails = fail;
        h.next = kani::any();
        let mut out = ModelWriter { written: 0, flushed: false, fail: None };
        let args = [SemValue::Literal(Literal::String(Utf8String::from("p/q"))), marker(10), marker(11)];
        let r = match which { 1 => call!(fs_open_reader, &args, &mut out, &mut h), 2 => call!(fs_create_writer, &args, &mut out, &mut h), _ => call!(fs_append_writer, &args, &mut out, &mut h) };
        let (got, err, cap) = (selected(&r), r.as_ref().err().copied(), opened_capability(&r));
        core::mem::forget(r); core::mem::forget(args);
        assert!(h.opened == Some((which, 3)));
        match fail {
            | None => assert!(matches!(got, Some((11, 1, _))) && cap == Some((which == 1, h.next))),
            | Some(k) => assert!(err == Some(10_000 + category(k))),
        }
    }
    #[kani::proof] #[kani::unwind(5)] #[kani::stub(extracted::HostContinuation::io_error, io_error_stub)] fn fs_open_reader_whole() { check_open(1) }
    #[kani::proof] #[kani::unwind(5)] #[kani::stub(extracted::HostContinuation::io_error, io_error_stub)] fn fs_create_writer_whole() { check_open(2) }
    #[kani::proof] #[kani::unwind(5)] #[kani::stub(extracted::HostContinuation::io_error, io_error_stub)] fn fs_append_writer_whole() { check_open(3) }

    /// the byte buffer the selected continuation is applied to: (length, first byte, last byte)
    fn outer_arg_bytes(r: &Result<Computation, i32>) -> Option<(usize, Option<u8>, Option<u8>)> {
        match r { Ok(Computation::VApp(App(_, a))) => match a.as_ref() {
            | Value::SemValue(SemValue::Host(HostValue::Bytes(b))) => Some((b.len(), b.first().copied(), b.last().copied())),
            | _ => None }, _ => None }
    }

    /// whole io_read_line, BOUNDED (fixed contents, fixed handle / table state / device state per harness; the routing of EVERY handle
    /// is proved by reader_run_routing): one line without its terminator (`\n` or `\r\n`) -> when_line (4th); an EMPTY line is a line,
    /// not end of input; end of input -> when_eof (3rd) forced; closed handle or failing device -> when_error (2nd)
    fn check_read_line(x: usize, open: bool, fail: Option<io::ErrorKind>, data: &'static [u8], want: Option<(usize, Option<u8>, Option<u8>)>, consumed: usize) {
        let mut h = host(open);
        h.rfile = ModelReader { data, pos: 0, fail };
        let mut inp = ModelReader { data, pos: 0, fail };
        let mut out = std::io::sink();
        let args = [SemValue::Host(HostValue::Reader(rh(x))), marker(10), marker(11), marker(12)];
        let r = io_read_line(&args, &mut inp, &mut out, &[], &mut h);
        let (got, err, bytes) = (selected(&r), r.as_ref().err().copied(), outer_arg_bytes(&r));
        core::mem::forget(r); core::mem::forget(args);
        let named_open = x == 0 || open;
        match (named_open, fail, want) {
            | (false, _, _) => assert!(err == Some(10_006) && inp.pos == 0 && h.rfile.pos == 0),
            | (true, Some(k), _) => assert!(err == Some(10_000 + category(k))),
            | (true, None, None) => assert!(got == Some((11, 0, None))),
            | (true, None, Some(w)) => assert!(matches!(got, Some((12, 1, _))) && bytes == Some(w) && (if x == 0 { inp.pos } else { h.rfile.pos }) == consumed && (if x == 0 { h.rfile.pos } else { inp.pos }) == 0),
        }
    }
    macro_rules! read_line_case {
        ($name:ident, $unwind:expr, $x:expr, $open:expr, $fail:expr, $data:expr, $want:expr, $consumed:expr) => {
            #[kani::proof] #[kani::unwind($unwind)] #[kani::stub(extracted::HostContinuation::io_error, io_error_stub)]
            fn $name() { check_read_line($x, $open, $fail, $data, $want, $consumed) }
        };
    }
    read_line_case!(io_read_line_crlf_stdin, 5, 0, false, None, b"a\r\nb", Some((1, Some(b'a'), Some(b'a'))), 3);
    read_line_case!(io_read_line_crlf_file, 5, 5, true, None, b"a\r\nb", Some((1, Some(b'a'), Some(b'a'))), 3);
    read_line_case!(io_read_line_empty_line_stdin, 3, 0, false, None, b"\nx", Some((0, None, None)), 1);
    read_line_case!(io_read_line_empty_line_file, 3, 5, true, None, b"\nx", Some((0, None, None)), 1);
    read_line_case!(io_read_line_eof_stdin, 3, 0, false, None, b"", None, 0);
    read_line_case!(io_read_line_eof_file, 3, 5, true, None, b"", None, 0);
    read_line_case!(io_read_line_unterminated_file, 3, 5, true, None, b"zy", Some((2, Some(b'z'), Some(b'y'))), 2);
    read_line_case!(io_read_line_closed, 3, 5, false, None, b"zy", None, 0);
    read_line_case!(io_read_line_device_failure, 3, 5, true, Some(io::ErrorKind::BrokenPipe), b"zy", None, 0);

    /// io_read / io_read_all: std's read_to_end does not fit CBMC (every harness that reaches it timed out at 300 s, measured); only the
    /// closed-handle case of io_read_all is decided here, the rest is evaluated at run time
    #[kani::proof] #[kani::unwind(4)] #[kani::stub(extracted::HostContinuation::io_error, io_error_stub)]
    fn io_read_all_closed() {
        let mut h = host(false);
        h.rfile.data = b"abc";
        let mut inp = ModelReader { data: b"abc", pos: 0, fail: None };
        let mut out = std::io::sink();
        let args = [SemValue::Host(HostValue::Reader(rh(5))), marker(10), marker(11)];
        let r = io_read_all(&args, &mut inp, &mut out, &[], &mut h);
        let err = r.as_ref().err().copied();
        core::mem::forget(r); core::mem::forget(args);
        assert!(err == Some(10_006) && inp.pos == 0 && h.rfile.pos == 0);
    }

    /// STAND-IN for std's private `default_read_to_end` (probe buffers, adaptive growth: every harness reaching it timed out at 300 s):
    /// "read until `read` answers 0, appending what was read" -- its documented meaning, two bytes at a time
    fn simple_read_to_end<R: io::Read + ?Sized>(r: &mut R, buf: &mut Vec<u8>, _size_hint: Option<usize>) -> io::Result<usize> {
        let mut total = 0usize;
        let mut chunk = [0u8; 2];
        loop {
            let n = r.read(&mut chunk)?;
            if n == 0 { return Ok(total); }
            buf.extend_from_slice(&chunk[..n]);
            total += n;
        }
    }
    /// whole io_read with EVERY negative count (complete in the count): error continuation with category 3 (InvalidInput); nothing is read
    #[kani::proof] #[kani::unwind(4)]
    #[kani::stub(extracted::HostContinuation::io_error, io_error_stub)]
    #[kani::stub(std::io::default_read_to_end, simple_read_to_end)]
    fn io_read_negative_count() {
        let count: i64 = kani::any();
        kani::assume(count < 0);
        let mut h = host(true);
        h.rfile.data = b"abc";
        let mut inp = ModelReader { data: b"abc", pos: 0, fail: None };
        let mut out = std::io::sink();
        let args = [SemValue::Host(HostValue::Reader(rh(5))), SemValue::Literal(Literal::Integer(IntegerLiteral::Int64(count))), marker(10), marker(11)];
        let r = io_read(&args, &mut inp, &mut out, &[], &mut h);
        let err = r.as_ref().err().copied();
        core::mem::forget(r); core::mem::forget(args);
        assert!(err == Some(10_003) && inp.pos == 0 && h.rfile.pos == 0);
    }
    /// whole io_read / io_read_all, BOUNDED (fixed contents; fixed handle/table state per harness): at most `count` bytes, fewer at end
    /// of input, a count far beyond the contents is not an allocation request; read_all reads everything
    fn check_read(x: usize, open: bool, count: Option<i64>, data: &'static [u8], want: Option<(usize, Option<u8>, Option<u8>)>, consumed: usize) {
        let mut h = host(open);
        h.rfile.data = data;
        let mut inp = ModelReader { data, pos: 0, fail: None };
        let mut out = std::io::sink();
        let r = match count {
            | Some(c) => { let args = [SemValue::Host(HostValue::Reader(rh(x))), SemValue::Literal(Literal::Integer(IntegerLiteral::Int64(c))), marker(10), marker(11)]; let r = io_read(&args, &mut inp, &mut out, &[], &mut h); core::mem::forget(args); r }
            | None => { let args = [SemValue::Host(HostValue::Reader(rh(x))), marker(10), marker(11)]; let r = io_read_all(&args, &mut inp, &mut out, &[], &mut h); core::mem::forget(args); r }
        };
        let (got, err, bytes) = (selected(&r), r.as_ref().err().copied(), outer_arg_bytes(&r));
        core::mem::forget(r);
        match want {
            | None => assert!(err == Some(10_006) && inp.pos == 0 && h.rfile.pos == 0),
            | Some(w) => assert!(matches!(got, Some((11, 1, _))) && bytes == Some(w) && (if x == 0 { inp.pos } else { h.rfile.pos }) == consumed),
        }
    }
    macro_rules! read_case {
        ($name:ident, $unwind:expr, $x:expr, $open:expr, $count:expr, $data:expr, $want:expr, $consumed:expr) => {
            #[kani::proof] #[kani::unwind($unwind)]
            #[kani::stub(extracted::HostContinuation::io_error, io_error_stub)]
            #[kani::stub(std::io::default_read_to_end, simple_read_to_end)]
            fn $name() { check_read($x, $open, $count, $data, $want, $consumed) }
        };
    }
    read_case!(io_read_two_of_three, 4, 5, true, Some(2), b"abc", Some((2, Some(b'a'), Some(b'b'))), 2);
    read_case!(io_read_zero, 4, 0, false, Some(0), b"abc", Some((0, None, None)), 0);
    read_case!(io_read_beyond_end, 4, 0, false, Some(i64::MAX), b"abc", Some((3, Some(b'a'), Some(b'c'))), 3);
    read_case!(io_read_closed, 4, 5, false, Some(2), b"abc", None, 0);
    read_case!(io_read_all_file, 4, 5, true, None, b"abc", Some((3, Some(b'a'), Some(b'c'))), 3);
    read_case!(io_read_all_stdin_empty, 4, 0, false, None, b"", Some((0, None, None)), 0);

    /// whole legacy write_str, BOUNDED (fixed text; a device that works): all bytes of the string go to the injected standard output,
    /// which is flushed, nothing goes to the handle table, and the continuation (2nd argument) is forced
    #[kani::proof] #[kani::unwind(3)]
    fn write_str_whole() {
        let mut h = host(true);
        let mut out = ModelWriter { written: 0, flushed: false, fail: None };
        let mut inp = ModelReader { data: b"", pos: 0, fail: None };
        let args = [SemValue::Literal(Literal::String(Utf8String::from("a\u{e9}"))), marker(10)];
        let r = write_str(&args, &mut inp, &mut out, &[], &mut h);
        let got = selected(&r);
        core::mem::forget(r); core::mem::forget(args);
        assert!(got == Some((10, 0, None)) && out.written == 3 && out.flushed && h.wfile.written == 0 && h.asked_writer.is_none());
    }
}
