// Generated on every run by /verif/vf/extract.py from /repo's working tree. Item text is copied byte for byte.
#![allow(unused)]
use std::rc::Rc;
use zydeco_dynamics::syntax::*;
type ZValue = SemValue;
type ZCompute = Computation;

/*@fn lang/dynamics/src/impls.rs :: fn mk_rc
  plain
@*/
/*@end*/
/*@fn lang/dynamics/src/impls.rs :: fn app
  plain
@*/
/*@end*/

/*@type lang/dynamics/src/impls.rs :: struct Branch @*/
impl Branch {
/*@fn lang/dynamics/src/impls.rs :: impl Branch :: fn select
  plain
@*/
/*@end*/
}
/*@type lang/dynamics/src/impls.rs :: struct OptionalValueBranch @*/
impl OptionalValueBranch {
/*@fn lang/dynamics/src/impls.rs :: impl OptionalValueBranch :: fn select
  plain
@*/
/*@end*/
}
/*@type lang/dynamics/src/impls.rs :: struct OptionalPairBranch @*/
impl OptionalPairBranch {
/*@fn lang/dynamics/src/impls.rs :: impl OptionalPairBranch :: fn select
  plain
@*/
/*@end*/
}
/*@type lang/dynamics/src/impls.rs :: struct HostContinuation @*/
impl HostContinuation {
/*@fn lang/dynamics/src/impls.rs :: impl HostContinuation :: fn force
  plain
@*/
/*@end*/
/*@fn lang/dynamics/src/impls.rs :: impl HostContinuation :: fn one
  plain
@*/
/*@end*/
/*@fn lang/dynamics/src/impls.rs :: impl HostContinuation :: fn two
  plain
@*/
/*@end*/
}

// ---- kernels of the text host operations (rule R8: initializer expressions of `let` statements) ----
use zydeco_dynamics::host::HostValue;
/*@type lang/dynamics/src/impls.rs :: struct HostBytes @*/
impl HostBytes {
/*@fn lang/dynamics/src/impls.rs :: impl HostBytes :: fn borrow
  plain
@*/
/*@end*/
}
pub fn char_from_codepoint_kernel(codepoint: &i64) -> Option<ZValue> {
    /*@let lang/dynamics/src/impls.rs :: fn char_from_codepoint_branch :: let character @*/
}
pub fn str_get_kernel(string: &Utf8String, index: &i64) -> Option<ZValue> {
    /*@let lang/dynamics/src/impls.rs :: fn str_get_branch :: let character @*/
}
pub fn str_split_at_kernel(string: &Utf8String, index: &i64) -> Option<(Utf8String, Utf8String)> {
    /*@let lang/dynamics/src/impls.rs :: fn str_split_at_branch :: let pair @*/
}

// ---- numeric dispatch functions of the interpreter (rule R9: `args: Vec<ZValue>` -> `args: &[ZValue]`) ----
pub trait AsSliceIdentity<T> { fn as_slice(&self) -> &[T]; }
impl<T> AsSliceIdentity<T> for [T] { fn as_slice(&self) -> &[T] { self } }

/*@fn lang/dynamics/src/impls.rs :: fn ret
  plain
@*/
/*@end*/
/*@macro? lang/dynamics/src/impls.rs :: macro integer_arithmetic_result @*/
/*@fn lang/dynamics/src/impls.rs :: fn integer_arithmetic
  plain
  vec_as_slice args
@*/
/*@end*/
/*@macro? lang/dynamics/src/impls.rs :: macro float_arithmetic_result @*/
/*@fn lang/dynamics/src/impls.rs :: fn float_arithmetic
  plain
  vec_as_slice args
@*/
/*@end*/

// ---- comparison dispatch of integer_branch / float_branch (rule R8: the `let condition = match ..` initializer) ----
/*@fn lang/dynamics/src/impls.rs :: fn integer_comparison
  plain
@*/
/*@end*/
/*@fn lang/dynamics/src/impls.rs :: fn float_comparison
  plain
@*/
/*@end*/
pub fn integer_branch_condition(integer_type: IntegerType, first: &ZValue, second: &ZValue, operation: IntegerOperation) -> bool {
    /*@let lang/dynamics/src/impls.rs :: fn integer_branch :: let condition @*/
}
pub fn float_branch_condition(float_type: FloatType, first: &ZValue, second: &ZValue, operation: FloatOperation) -> bool {
    /*@let lang/dynamics/src/impls.rs :: fn float_branch :: let condition @*/
}
pub fn str_split_once_kernel(string: &Utf8String, separator: &char) -> Option<(Utf8String, Utf8String)> {
    /*@let lang/dynamics/src/impls.rs :: fn str_split_once_branch :: let pair @*/
}

// ---- error kind numbering shared with the native runtime ABI ----
use std::io;
/*@type lang/dynamics/src/host.rs :: enum HostIoErrorKind
   derive Clone, Copy, Debug, PartialEq, Eq
@*/
impl HostIoErrorKind {
/*@fn lang/dynamics/src/host.rs :: impl HostIoErrorKind :: fn from_error
  plain
@*/
/*@end*/
}
/*@type lang/dynamics/src/host.rs :: struct HostIoError @*/
impl HostIoError {
/*@fn lang/dynamics/src/host.rs :: impl HostIoError :: fn closed
  plain
@*/
/*@end*/
}

// ---- host functions without continuation arguments, as wholes (rule R9: args as a slice). They ignore their host/stream
// parameters (`_`), so `HostRuntime` is a local unit stand-in here. ----
use std::io::{BufRead, Write};
use zydeco_dynamics::host::{ReaderHandle, WriterHandle};
pub struct HostRuntime;
impl HostBytes {
/*@fn lang/dynamics/src/impls.rs :: impl HostBytes :: fn value
  plain
@*/
/*@end*/
}
/*@fn lang/dynamics/src/impls.rs :: fn str_scalar_length
  plain
  vec_as_slice args
@*/
/*@end*/
/*@fn lang/dynamics/src/impls.rs :: fn str_byte_length
  plain
  vec_as_slice args
@*/
/*@end*/
/*@fn lang/dynamics/src/impls.rs :: fn char_codepoint
  plain
  vec_as_slice args
@*/
/*@end*/
/*@fn lang/dynamics/src/impls.rs :: fn char_to_str
  plain
  vec_as_slice args
@*/
/*@end*/
/*@fn lang/dynamics/src/impls.rs :: fn exit
  plain
  vec_as_slice args
@*/
/*@end*/
/*@fn lang/dynamics/src/impls.rs :: fn bytes_length
  plain
  vec_as_slice args
@*/
/*@end*/
/*@fn lang/dynamics/src/impls.rs :: fn bytes_empty
  plain
  vec_as_slice args
@*/
/*@end*/
/*@fn lang/dynamics/src/impls.rs :: fn bytes_append
  plain
  vec_as_slice args
@*/
/*@end*/
/*@fn lang/dynamics/src/impls.rs :: fn bytes_from_str
  plain
  vec_as_slice args
@*/
/*@end*/
/*@fn lang/dynamics/src/impls.rs :: fn str_append
  plain
  vec_as_slice args
@*/
/*@end*/
/*@fn lang/dynamics/src/impls.rs :: fn stdin
  plain
  vec_as_slice args
@*/
/*@end*/
/*@fn lang/dynamics/src/impls.rs :: fn stdout
  plain
  vec_as_slice args
@*/
/*@end*/
/*@fn lang/dynamics/src/impls.rs :: fn stderr
  plain
  vec_as_slice args
@*/
/*@end*/

// ---- host functions WITH continuation arguments, as wholes (rules R9 + R11: `ZValue::Thunk(_)` sub-patterns weakened to `_`) ----
/*@fn lang/dynamics/src/impls.rs :: fn str_get_branch
  plain
  vec_as_slice args
  weaken_thunk_patterns
@*/
/*@end*/
/*@fn lang/dynamics/src/impls.rs :: fn str_split_at_branch
  plain
  vec_as_slice args
  weaken_thunk_patterns
@*/
/*@end*/
/*@fn lang/dynamics/src/impls.rs :: fn char_from_codepoint_branch
  plain
  vec_as_slice args
  weaken_thunk_patterns
@*/
/*@end*/
/*@fn lang/dynamics/src/impls.rs :: fn str_parse_int_branch
  plain
  vec_as_slice args
  weaken_thunk_patterns
@*/
/*@end*/
/*@fn lang/dynamics/src/impls.rs :: fn bytes_to_str_branch
  plain
  vec_as_slice args
  weaken_thunk_patterns
@*/
/*@end*/
/*@fn lang/dynamics/src/impls.rs :: fn str_eq_branch
  plain
  vec_as_slice args
  weaken_thunk_patterns
@*/
/*@end*/
/*@type lang/dynamics/src/impls.rs :: struct ArgumentFold @*/
impl ArgumentFold {
/*@fn lang/dynamics/src/impls.rs :: impl ArgumentFold :: fn tail
  plain
@*/
/*@end*/
/*@fn lang/dynamics/src/impls.rs :: impl ArgumentFold :: fn item
  plain
@*/
/*@end*/
/*@fn lang/dynamics/src/impls.rs :: impl ArgumentFold :: fn build
  plain
@*/
/*@end*/
}
/*@fn lang/dynamics/src/impls.rs :: fn arg_fold
  plain
  vec_as_slice args
  weaken_thunk_patterns
@*/
/*@end*/
