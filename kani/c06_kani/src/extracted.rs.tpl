// Generated on every run by /verif/vf/extract.py from /repo's working tree. Item text is copied byte for byte.
#![allow(unused)]
use std::rc::Rc;
use zydeco_dynamics::syntax::*;
type ZValue = SemValue;
type ZCompute = Computation;

/*@fn lang/dynamics/src/impls.rs :: fn mk_rc
  plain
@*/
/*@end*/
/*@fn lang/dynamics/src/impls.rs :: fn app
  plain
@*/
/*@end*/

/*@type lang/dynamics/src/impls.rs :: struct Branch @*/
impl Branch {
/*@fn lang/dynamics/src/impls.rs :: impl Branch :: fn select
  plain
@*/
/*@end*/
}
/*@type lang/dynamics/src/impls.rs :: struct OptionalValueBranch @*/
impl OptionalValueBranch {
/*@fn lang/dynamics/src/impls.rs :: impl OptionalValueBranch :: fn select
  plain
@*/
/*@end*/
}
/*@type lang/dynamics/src/impls.rs :: struct OptionalPairBranch @*/
impl OptionalPairBranch {
/*@fn lang/dynamics/src/impls.rs :: impl OptionalPairBranch :: fn select
  plain
@*/
/*@end*/
}
/*@type lang/dynamics/src/impls.rs :: struct HostContinuation @*/
impl HostContinuation {
/*@fn lang/dynamics/src/impls.rs :: impl HostContinuation :: fn force
  plain
@*/
/*@end*/
/*@fn lang/dynamics/src/impls.rs :: impl HostContinuation :: fn one
  plain
@*/
/*@end*/
/*@fn lang/dynamics/src/impls.rs :: impl HostContinuation :: fn two
  plain
@*/
/*@end*/
}

// ---- kernels of the text host operations (rule R8: initializer expressions of `let` statements) ----
use zydeco_dynamics::host::HostValue;
/*@type lang/dynamics/src/impls.rs :: struct HostBytes @*/
impl HostBytes {
/*@fn lang/dynamics/src/impls.rs :: impl HostBytes :: fn borrow
  plain
@*/
/*@end*/
}
pub fn char_from_codepoint_kernel(codepoint: &i64) -> Option<ZValue> {
    /*@let lang/dynamics/src/impls.rs :: fn char_from_codepoint_branch :: let character @*/
}
pub fn str_get_kernel(string: &Utf8String, index: &i64) -> Option<ZValue> {
    /*@let lang/dynamics/src/impls.rs :: fn str_get_branch :: let character @*/
}
pub fn str_split_at_kernel(string: &Utf8String, index: &i64) -> Option<(Utf8String, Utf8String)> {
    /*@let lang/dynamics/src/impls.rs :: fn str_split_at_branch :: let pair @*/
}
pub fn bytes_to_str_kernel(bytes: &ZValue) -> Option<ZValue> {
    /*@let lang/dynamics/src/impls.rs :: fn bytes_to_str_branch :: let value @*/
}
