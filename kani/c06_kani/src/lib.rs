//! Kani harnesses for property C06 (host operations honour their declared type and contract): table agreement
//! and continuation selection order. Inputs are stack values; results are inspected through references and forgotten
//! (dropping heap-stored recursive syntax does not terminate in CBMC; measured).
#![allow(unused, clippy::all)]
mod extracted;
use extracted::*;
use std::rc::Rc;
use zydeco_dynamics::syntax::*;
use zydeco_statics::builtin::{BuiltinComputationClassifier as CC, BuiltinOperationAbi, BuiltinValueClassifier as VC};

/// number of parameters the ABI classifier declares: arrows under the outer Thunk, through `forall CType`
pub fn declared_parameters(role: BuiltinValueRole) -> usize {
    let c = BuiltinOperationAbi::for_role(role).into_classifier();
    let n = {
        let VC::Thunk(body) = &c else { panic!("host operation is not a thunk") };
        let mut cur: &CC = body;
        let mut n = 0usize;
        loop {
            match cur {
                | CC::ForallCType(inner) => cur = inner,
                | CC::Arrow(_, out) => { n += 1; cur = out; }
                | _ => break,
            }
        }
        n
    };
    core::mem::forget(c);
    n
}

/// T2: the value materialised for a role in the Builtin package is `Thunk(Prim { arity, role })` for that same role
pub fn packaged_arity(role: BuiltinValueRole) -> Option<u64> {
    let v = zydeco_dynamics::builtin::BuiltinRuntime::package_value(role);
    let r = match v.as_ref() {
        | Value::Thunk(Thunk(c)) => match c.as_ref() {
            | Computation::Prim(Prim { arity, role: r }) if *r == role => Some(*arity),
            | _ => None,
        },
        | _ => None,
    };
    core::mem::forget(v);
    r
}

#[cfg(kani)]
mod roles;

fn marker(v: i64) -> SemValue { SemValue::Literal(Literal::Integer(IntegerLiteral::Int64(v))) }
fn is_marker(v: &Value, want: i64) -> bool {
    match v {
        | Value::SemValue(SemValue::Literal(Literal::Integer(IntegerLiteral::Int64(x)))) => *x == want,
        | Value::Lit(Literal::Integer(IntegerLiteral::Int64(x))) => *x == want,
        | _ => false,
    }
}
/// `Force(v)` where v is marker `want`
fn forces(c: &Computation, want: i64) -> bool {
    match c { Computation::Force(Force(v)) => is_marker(v.as_ref(), want), _ => false }
}

#[cfg(kani)]
mod select {
    use super::*;
    /// [S1-BRANCH] Branch::select forces `when_true` iff the condition holds (continuations are distinguishable markers)
    #[kani::proof]
    fn branch_select_order() {
        let cond: bool = kani::any();
        let (t, f) = (marker(1), marker(0));
        let r = Branch::select(cond, &t, &f);
        let ok = match &r { Ok(c) => forces(c, if cond { 1 } else { 0 }), Err(_) => false };
        core::mem::forget(r); core::mem::forget(t); core::mem::forget(f);
        assert!(ok);
    }
    /// [S1-OPTVAL] None forces `when_none`; Some(v) forces `when_some` applied to v
    #[kani::proof]
    fn optional_value_select_order() {
        let some: bool = kani::any();
        let (n, s) = (marker(10), marker(11));
        let v = if some { Some(marker(7)) } else { None };
        let r = OptionalValueBranch::select(v, &n, &s);
        let ok = match &r {
            | Ok(c) if !some => forces(c, 10),
            | Ok(Computation::VApp(App(body, arg))) => forces(body.as_ref(), 11) && is_marker(arg.as_ref(), 7),
            | _ => false,
        };
        core::mem::forget(r); core::mem::forget(n); core::mem::forget(s);
        assert!(ok);
    }
    /// [S1-ONE-TWO] HostContinuation::one applies the continuation to its argument; two applies first THEN second
    #[kani::proof]
    fn host_continuation_order() {
        let k = marker(20);
        let r1 = HostContinuation::one(&k, marker(1));
        let ok1 = match &r1 { Computation::VApp(App(body, arg)) => forces(body.as_ref(), 20) && is_marker(arg.as_ref(), 1), _ => false };
        let r2 = HostContinuation::two(&k, marker(1), marker(2));
        let ok2 = match &r2 {
            | Computation::VApp(App(inner, second)) => is_marker(second.as_ref(), 2) && match inner.as_ref() {
                | Computation::VApp(App(body, first)) => forces(body.as_ref(), 20) && is_marker(first.as_ref(), 1),
                | _ => false,
            },
            | _ => false,
        };
        core::mem::forget(r1); core::mem::forget(r2); core::mem::forget(k);
        assert!(ok1 && ok2);
    }
}

#[cfg(kani)]
mod text {
    use super::*;
    fn char_of(v: &Option<SemValue>) -> Option<char> {
        match v { Some(SemValue::Literal(Literal::Char(c))) => Some(*c), _ => None }
    }
    /// [U2] char_from_codepoint: Some exactly on Unicode scalar values (0..=0x10FFFF minus surrogates), the same
    /// code point back; negative / too large / surrogate -> the `none` branch, never a failure. Full i64 domain: complete.
    #[kani::proof]
    fn char_from_codepoint_total() {
        let cp: i64 = kani::any();
        let r = char_from_codepoint_kernel(&cp);
        let scalar = (0..=0x10FFFF).contains(&cp) && !(0xD800..=0xDFFF).contains(&cp);
        let got = char_of(&r);
        core::mem::forget(r);
        assert!(got.is_some() == scalar);
        if let Some(c) = got { assert!(c as u32 as i64 == cp); }
    }

    /// U1, BOUNDED: the string ranges over a fixed family (all four UTF-8 encoded widths, mixed), the index is a fully
    /// symbolic i64: every position, including every negative and out-of-range one, takes the `none` branch and never panics;
    /// in range, positions count Unicode scalar values (not bytes).
    fn check_get(s: &str, scalars: &[char]) {
        let u = Utf8String::from(s);
        let i: i64 = kani::any();
        let r = str_get_kernel(&u, &i);
        let got = char_of(&r);
        core::mem::forget(r);
        let want = if i >= 0 && (i as u128) < scalars.len() as u128 { Some(scalars[i as usize]) } else { None };
        assert!(got == want);
        assert!(u.scalar_len() == scalars.len());
    }
    fn check_split(s: &str, boundaries: &[usize]) {
        // boundaries[k] = byte offset of scalar position k, for k in 0..=n
        let u = Utf8String::from(s);
        let i: i64 = kani::any();
        let r = str_split_at_kernel(&u, &i);
        let n = boundaries.len() - 1;
        match &r {
            | Some((a, b)) => {
                assert!(i >= 0 && (i as u128) <= n as u128);
                let cut = boundaries[i as usize];
                assert!(a.byte_len() == cut && b.byte_len() == s.len() - cut);
            }
            | None => assert!(i < 0 || (i as u128) > n as u128),
        }
        core::mem::forget(r);
    }
    #[kani::proof] #[kani::unwind(8)] fn str_get_empty() { check_get("", &[]) }
    #[kani::proof] #[kani::unwind(8)] fn str_get_ascii() { check_get("a", &['a']) }
    #[kani::proof] #[kani::unwind(13)] fn str_get_mixed() { check_get("a\u{e9}\u{20ac}\u{1f600}", &['a', '\u{e9}', '\u{20ac}', '\u{1f600}']) }
    #[kani::proof] #[kani::unwind(13)] fn str_get_mixed_rev() { check_get("\u{1f600}\u{20ac}\u{e9}a", &['\u{1f600}', '\u{20ac}', '\u{e9}', 'a']) }
    #[kani::proof] #[kani::unwind(8)] fn str_split_empty() { check_split("", &[0]) }
    #[kani::proof] #[kani::unwind(13)] fn str_split_mixed() { check_split("a\u{e9}\u{20ac}\u{1f600}", &[0, 1, 3, 6, 10]) }
    #[kani::proof] #[kani::unwind(13)] fn str_split_mixed_rev() { check_split("\u{1f600}\u{20ac}\u{e9}a", &[0, 4, 7, 9, 10]) }
}

#[cfg(kani)]
mod pair {
    use super::*;
    /// [S1-OPTPAIR] None forces when_none; Some((a, b)) applies when_some to a THEN b
    #[kani::proof]
    #[kani::unwind(4)]
    fn optional_pair_select_order() {
        let some: bool = kani::any();
        let (n, s) = (marker(10), marker(11));
        let v = if some { Some((Utf8String::from("x"), Utf8String::from("yz"))) } else { None };
        let r = OptionalPairBranch::select(v, &n, &s);
        let is_str = |v: &Value, len: usize| match v {
            | Value::SemValue(SemValue::Literal(Literal::String(t))) => t.byte_len() == len,
            | Value::Lit(Literal::String(t)) => t.byte_len() == len,
            | _ => false,
        };
        let ok = match &r {
            | Ok(c) if !some => forces(c, 10),
            | Ok(Computation::VApp(App(inner, second))) => is_str(second.as_ref(), 2) && match inner.as_ref() {
                | Computation::VApp(App(body, first)) => forces(body.as_ref(), 11) && is_str(first.as_ref(), 1),
                | _ => false,
            },
            | _ => false,
        };
        core::mem::forget(r); core::mem::forget(n); core::mem::forget(s);
        assert!(ok);
    }
}


// ---------- C05: the interpreter's numeric dispatch functions, whole (rule R9: args as a slice) ----------
// What is proved here is the dispatch layer: for every integer type the arm taken passes (first, second) in order to the
// arithmetic of THAT carrier and wraps the result in THAT carrier. Oracle: the same-named primitive on the carrier (the
// kernels' mathematical semantics are proved separately in unit c05_kani). Branch dispatch (integer_branch, float_branch)
// needs real EnvThunk arguments, whose im::HashMap environment CBMC does not finish (measured: 900 s timeout).
#[cfg(kani)]
mod dispatch {
    use super::*;
    fn run<const N: usize>(ity: IntegerType, op: IntegerOperation, args: [SemValue; N]) -> Option<IntegerLiteral> {
        let r = integer_arithmetic(ity, op, &args);
        let got = match &r {
            | Ok(Computation::Ret(Return(v))) => match v.as_ref() {
                | Value::SemValue(SemValue::Literal(Literal::Integer(l))) => Some(*l),
                | _ => None,
            },
            | _ => None,
        };
        core::mem::forget(r); core::mem::forget(args);
        got
    }
    macro_rules! int_dispatch {
        ($name:ident, $name_div:ident, $variant:ident, $carrier:ty, $ity:expr) => {
            /// add/sub through the whole dispatch function: all operand pairs
            #[kani::proof]
            fn $name() {
                let a: $carrier = kani::any();
                let b: $carrier = kani::any();
                let k: u8 = kani::any();
                kani::assume(k < 2);
                let op = IntegerOperation::ALL[k as usize];
                let got = run($ity, op, [SemValue::Literal(Literal::Integer(IntegerLiteral::$variant(a))), SemValue::Literal(Literal::Integer(IntegerLiteral::$variant(b)))]);
                let want: $carrier = match op {
                    | IntegerOperation::Add => a.wrapping_add(b),
                    | IntegerOperation::Sub => a.wrapping_sub(b),
                    | _ => a.wrapping_mul(b),
                };
                assert!(got == Some(IntegerLiteral::$variant(want)));
            }
            /// mul/div/mod through the whole dispatch function. RESTRICTED: the first operand is fully symbolic, the second ranges
            /// over {3, MAX, and -1 for signed carriers} (a second symbolic multiplier/divider does not finish in SAT at 32/64 bits;
            /// CBMC's SMT back end crashes on this program). Distinguishes operand order, operation, carrier and the MIN / -1 case.
            #[kani::proof]
            fn $name_div() {
                let a: $carrier = kani::any();
                let which: u8 = kani::any();
                kani::assume(which < 3);
                let b: $carrier = match which { 0 => 3, 1 => <$carrier>::MAX, _ => if <$carrier>::MIN != 0 { (0 as $carrier).wrapping_sub(1) } else { 7 } };
                let k: u8 = kani::any();
                kani::assume(k >= 2 && k < 5);
                let op = IntegerOperation::ALL[k as usize];
                let is_div = matches!(op, IntegerOperation::Div);
                let got = run($ity, op, [SemValue::Literal(Literal::Integer(IntegerLiteral::$variant(a))), SemValue::Literal(Literal::Integer(IntegerLiteral::$variant(b)))]);
                let min_m1 = <$carrier>::MIN != 0 && a == <$carrier>::MIN && which == 2;
                let want: $carrier = if matches!(op, IntegerOperation::Mul) { a.wrapping_mul(b) }
                    else if is_div { if min_m1 { <$carrier>::MIN } else { a / b } } else { if min_m1 { 0 } else { a % b } };
                assert!(got == Some(IntegerLiteral::$variant(want)));
            }
        };
    }
    /// every type has its own dispatch arm and it uses that type's carrier (concrete operands; the symbolic versions of the
    /// wider types are in the thorough tier)
    macro_rules! int_arm {
        ($name:ident, $variant:ident, $carrier:ty, $ity:expr) => {
            #[kani::proof]
            fn $name() {
                let lit = |v: $carrier| SemValue::Literal(Literal::Integer(IntegerLiteral::$variant(v)));
                assert!(run($ity, IntegerOperation::Add, [lit(<$carrier>::MAX), lit(1)]) == Some(IntegerLiteral::$variant(<$carrier>::MIN)));
                assert!(run($ity, IntegerOperation::Sub, [lit(<$carrier>::MIN), lit(1)]) == Some(IntegerLiteral::$variant(<$carrier>::MAX)));
                assert!(run($ity, IntegerOperation::Mul, [lit(3), lit(5)]) == Some(IntegerLiteral::$variant(15)));
                assert!(run($ity, IntegerOperation::Div, [lit(7), lit(2)]) == Some(IntegerLiteral::$variant(3)));
                assert!(run($ity, IntegerOperation::Mod, [lit(7), lit(2)]) == Some(IntegerLiteral::$variant(1)));
            }
        };
    }
    int_arm!(integer_arm_int16, Int16, i16, IntegerType::Int16);
    int_arm!(integer_arm_int32, Int32, i32, IntegerType::Int32);
    int_arm!(integer_arm_int64, Int64, i64, IntegerType::Int64);
    int_arm!(integer_arm_uint16, UInt16, u16, IntegerType::UInt16);
    int_arm!(integer_arm_uint32, UInt32, u32, IntegerType::UInt32);
    int_arm!(integer_arm_uint64, UInt64, u64, IntegerType::UInt64);
    int_dispatch!(integer_arithmetic_int8, integer_muldivmod_int8, Int8, i8, IntegerType::Int8);
    int_dispatch!(integer_arithmetic_int16, integer_muldivmod_int16, Int16, i16, IntegerType::Int16);
    int_dispatch!(integer_arithmetic_int32, integer_muldivmod_int32, Int32, i32, IntegerType::Int32);
    int_dispatch!(integer_arithmetic_int64, integer_muldivmod_int64, Int64, i64, IntegerType::Int64);
    int_dispatch!(integer_arithmetic_uint8, integer_muldivmod_uint8, UInt8, u8, IntegerType::UInt8);
    int_dispatch!(integer_arithmetic_uint16, integer_muldivmod_uint16, UInt16, u16, IntegerType::UInt16);
    int_dispatch!(integer_arithmetic_uint32, integer_muldivmod_uint32, UInt32, u32, IntegerType::UInt32);
    int_dispatch!(integer_arithmetic_uint64, integer_muldivmod_uint64, UInt64, u64, IntegerType::UInt64);

    // float_arithmetic through the whole dispatch function. A second symbolic IEEE adder/multiplier/divider for the oracle does
    // not finish in CBMC, so the oracle is algebraic: RESTRICTED to the operation's identity element as second operand
    // (x + 0 = x, x - 0 = x, x * 1 = x, x / 1 = x for every non-NaN x, bit for bit except -0 + 0) and 0 - y = -y for operand
    // order. Pins operation selection, operand order, the carrier and that no other width's value leaks in.
    macro_rules! float_dispatch {
        ($name:ident, $variant:ident, $bits:ty, $f:ty, $fty:expr) => {
            #[kani::proof]
            fn $name() {
                let a: $bits = kani::any();
                let x = <$f>::from_bits(a);
                kani::assume(!x.is_nan());
                let run = |p: $bits, q: $bits, op: FloatOperation| -> Option<$bits> {
                    let args = [SemValue::Literal(Literal::Float(FloatLiteral::$variant(p))), SemValue::Literal(Literal::Float(FloatLiteral::$variant(q)))];
                    let r = float_arithmetic($fty, op, &args);
                    let got = match &r {
                        | Ok(Computation::Ret(Return(v))) => match v.as_ref() {
                            | Value::SemValue(SemValue::Literal(Literal::Float(FloatLiteral::$variant(b)))) => Some(*b),
                            | _ => None,
                        },
                        | _ => None,
                    };
                    core::mem::forget(r); core::mem::forget(args);
                    got
                };
                let zero = (0.0 as $f).to_bits();
                let one = (1.0 as $f).to_bits();
                let sign: $bits = 1 << (<$bits>::BITS - 1);
                let k: u8 = kani::any();
                kani::assume(k < 5);
                match k {
                    | 0 => assert!(run(a, zero, FloatOperation::Add) == Some(if a == sign { zero } else { a })),   // -0 + 0 = +0
                    | 1 => assert!(run(a, zero, FloatOperation::Sub) == Some(a)),
                    | 2 => assert!(run(a, one, FloatOperation::Mul) == Some(a)),
                    | 3 => assert!(run(a, one, FloatOperation::Div) == Some(a)),
                    | _ => assert!(run(zero, a, FloatOperation::Sub) == Some(if a == zero { zero } else { a ^ sign })), // 0 - y = -y (0 - 0 = +0)
                }
            }
        };
    }
    /// IEEE overflow / invalid results are VALUES (+-inf, NaN), never a failure: concrete boundary operands at each width
    macro_rules! float_overflow {
        ($name:ident, $variant:ident, $f:ty, $fty:expr) => {
            #[kani::proof]
            fn $name() {
                let run = |x: $f, y: $f, op: FloatOperation| -> Option<$f> {
                    let args = [SemValue::Literal(Literal::Float(FloatLiteral::$variant(x.to_bits()))), SemValue::Literal(Literal::Float(FloatLiteral::$variant(y.to_bits())))];
                    let r = float_arithmetic($fty, op, &args);
                    let got = match &r {
                        | Ok(Computation::Ret(Return(v))) => match v.as_ref() {
                            | Value::SemValue(SemValue::Literal(Literal::Float(FloatLiteral::$variant(b)))) => Some(<$f>::from_bits(*b)),
                            | _ => None,
                        },
                        | _ => None,
                    };
                    core::mem::forget(r); core::mem::forget(args);
                    got
                };
                assert!(run(<$f>::MAX, <$f>::MAX, FloatOperation::Add) == Some(<$f>::INFINITY));
                assert!(run(<$f>::MIN, <$f>::MAX, FloatOperation::Sub) == Some(<$f>::NEG_INFINITY));
                assert!(run(<$f>::MAX, 10.0, FloatOperation::Mul) == Some(<$f>::INFINITY));
                assert!(run(1.0, 0.0, FloatOperation::Div) == Some(<$f>::INFINITY));
                assert!(run(<$f>::MAX, <$f>::MIN_POSITIVE, FloatOperation::Div) == Some(<$f>::INFINITY));
                assert!(matches!(run(0.0, 0.0, FloatOperation::Div), Some(v) if v.is_nan()));
            }
        };
    }
    float_overflow!(float_arithmetic_float32_overflow, Float32, f32, FloatType::Float32);
    float_overflow!(float_arithmetic_float64_overflow, Float64, f64, FloatType::Float64);
    float_dispatch!(float_arithmetic_float32, Float32, u32, f32, FloatType::Float32);
    float_dispatch!(float_arithmetic_float64, Float64, u64, f64, FloatType::Float64);
}

// ---------- C05: the comparison dispatch of integer_branch / float_branch (rule R8) ----------
// `let condition = match (integer_type, first, second) { 8 arms }` copied verbatim: for every type the arm taken compares
// (first, second) in order in THAT carrier's domain (so unsigned types compare unsigned). Full operand domain: complete.
#[cfg(kani)]
mod branch_condition {
    use super::*;
    fn any_cmp() -> IntegerOperation {
        let k: u8 = kani::any();
        kani::assume(k >= 5 && k < 8);
        IntegerOperation::ALL[k as usize]
    }
    macro_rules! cond_harness {
        ($name:ident, $variant:ident, $carrier:ty, $ity:expr) => {
            #[kani::proof]
            fn $name() {
                let a: $carrier = kani::any();
                let b: $carrier = kani::any();
                let op = any_cmp();
                let x = SemValue::Literal(Literal::Integer(IntegerLiteral::$variant(a)));
                let y = SemValue::Literal(Literal::Integer(IntegerLiteral::$variant(b)));
                let got = integer_branch_condition($ity, &x, &y, op);
                core::mem::forget(x); core::mem::forget(y);
                let (p, q) = (a as i128, b as i128);
                let want = match op { IntegerOperation::Eq => p == q, IntegerOperation::Lt => p < q, _ => p > q };
                assert!(got == want);
            }
        };
    }
    cond_harness!(integer_branch_condition_int8, Int8, i8, IntegerType::Int8);
    cond_harness!(integer_branch_condition_int16, Int16, i16, IntegerType::Int16);
    cond_harness!(integer_branch_condition_int32, Int32, i32, IntegerType::Int32);
    cond_harness!(integer_branch_condition_int64, Int64, i64, IntegerType::Int64);
    cond_harness!(integer_branch_condition_uint8, UInt8, u8, IntegerType::UInt8);
    cond_harness!(integer_branch_condition_uint16, UInt16, u16, IntegerType::UInt16);
    cond_harness!(integer_branch_condition_uint32, UInt32, u32, IntegerType::UInt32);
    cond_harness!(integer_branch_condition_uint64, UInt64, u64, IntegerType::UInt64);

    fn any_fcmp() -> FloatOperation {
        let k: u8 = kani::any();
        kani::assume(k >= 4 && k < 7);
        FloatOperation::ALL[k as usize]
    }
    #[kani::proof]
    fn float_branch_condition_float32() {
        let a: u32 = kani::any();
        let b: u32 = kani::any();
        let op = any_fcmp();
        let x = SemValue::Literal(Literal::Float(FloatLiteral::Float32(a)));
        let y = SemValue::Literal(Literal::Float(FloatLiteral::Float32(b)));
        let got = float_branch_condition(FloatType::Float32, &x, &y, op);
        core::mem::forget(x); core::mem::forget(y);
        let (p, q) = (f32::from_bits(a), f32::from_bits(b));
        let want = match op { FloatOperation::Eq => p == q, FloatOperation::Lt => p < q, _ => p > q };
        assert!(got == want);
    }
    #[kani::proof]
    fn float_branch_condition_float64() {
        let a: u64 = kani::any();
        let b: u64 = kani::any();
        let op = any_fcmp();
        let x = SemValue::Literal(Literal::Float(FloatLiteral::Float64(a)));
        let y = SemValue::Literal(Literal::Float(FloatLiteral::Float64(b)));
        let got = float_branch_condition(FloatType::Float64, &x, &y, op);
        core::mem::forget(x); core::mem::forget(y);
        let (p, q) = (f64::from_bits(a), f64::from_bits(b));
        let want = match op { FloatOperation::Eq => p == q, FloatOperation::Lt => p < q, _ => p > q };
        assert!(got == want);
    }
}

#[cfg(kani)]
mod text2 {
    use super::*;
    /// str_split_once kernel, BOUNDED (fixed strings, separator ranges over a fixed set incl. non-ASCII): Some exactly when the
    /// separator occurs; the halves exclude the separator and their byte lengths add up
    fn check(s: &str, seps: &[(char, Option<usize>)]) {
        // seps: (separator, byte offset of its first occurrence or None) -- the expectation table is concrete
        let u = Utf8String::from(s);
        let k: usize = kani::any();
        kani::assume(k < seps.len());
        let (c, first) = seps[k];
        let r = str_split_once_kernel(&u, &c);
        match (&r, first) {
            | (Some((a, b)), Some(i)) => assert!(a.byte_len() == i && b.byte_len() == s.len() - i - c.len_utf8()),
            | (None, None) => {}
            | _ => panic!("wrong branch"),
        }
        core::mem::forget(r);
    }
    #[kani::proof] #[kani::unwind(13)] fn str_split_once_mixed() { check("a,\u{e9};\u{20ac},", &[(',', Some(1)), (';', Some(4)), ('\u{e9}', Some(2)), ('z', None), ('\u{20ac}', Some(5)), ('a', Some(0))]) }
    #[kani::proof] #[kani::unwind(13)] fn str_split_once_empty() { check("", &[(',', None), ('a', None)]) }
}

#[cfg(kani)]
mod errors {
    use super::*;
    use std::io::{Error, ErrorKind};
    /// [E1] stable error categories: the numbering is the ABI (NotFound=0 .. Closed=6, Other=7); the closed-handle error
    /// (`HostIoError::closed()`, kind NotConnected) maps to Closed = 6; every other kind maps into 0..=7 (total)
    #[kani::proof]
    fn error_kind_numbering() {
        const KINDS: [ErrorKind; 16] = [ErrorKind::NotFound, ErrorKind::PermissionDenied, ErrorKind::AlreadyExists, ErrorKind::InvalidInput, ErrorKind::InvalidData,
            ErrorKind::BrokenPipe, ErrorKind::NotConnected, ErrorKind::Other, ErrorKind::UnexpectedEof, ErrorKind::Interrupted, ErrorKind::WouldBlock, ErrorKind::TimedOut,
            ErrorKind::WriteZero, ErrorKind::Unsupported, ErrorKind::OutOfMemory, ErrorKind::ConnectionRefused];
        let k: usize = kani::any();
        kani::assume(k < KINDS.len());
        let e = Error::from(KINDS[k]);
        let got = HostIoErrorKind::from_error(&e) as i64;
        core::mem::forget(e);
        let want: i64 = if k < 7 { k as i64 } else { 7 };
        assert!(got == want);
    }
    #[kani::proof]
    fn closed_error_is_kind_six() {
        let e = HostIoError::closed();
        let got = HostIoErrorKind::from_error(&e) as i64;
        core::mem::forget(e);
        assert!(got == 6);
    }
}

// ---------- C06: host functions without continuation arguments, as WHOLE functions (rule R9) ----------
#[cfg(kani)]
mod pure_hosts {
    use super::*;
    use zydeco_dynamics::host::{HostValue, ReaderHandle, WriterHandle};
    macro_rules! call {
        ($f:ident, $args:expr) => {{
            let mut input = std::io::empty();
            let mut output = std::io::sink();
            let mut host = HostRuntime;
            $f($args, &mut input, &mut output, &[], &mut host)
        }};
    }
    fn returned(r: &Result<Computation, i32>) -> Option<&SemValue> {
        match r { Ok(Computation::Ret(Return(v))) => match v.as_ref() { Value::SemValue(s) => Some(s), _ => None }, _ => None }
    }
    fn returned_i64(r: &Result<Computation, i32>) -> Option<i64> {
        match returned(r) { Some(SemValue::Literal(Literal::Integer(IntegerLiteral::Int64(v)))) => Some(*v), _ => None }
    }
    /// char_codepoint on EVERY Unicode scalar value: consumes one Char, returns its code point as Int64 (complete)
    #[kani::proof]
    fn char_codepoint_whole() {
        let cp: u32 = kani::any();
        let Some(c) = char::from_u32(cp) else { return };
        let args = [SemValue::Literal(Literal::Char(c))];
        let r = call!(char_codepoint, &args);
        let got = returned_i64(&r);
        core::mem::forget(r); core::mem::forget(args);
        assert!(got == Some(cp as i64));
    }
    /// exit on EVERY Int64: ends the run with the low 32 bits as the process status (complete)
    #[kani::proof]
    fn exit_whole() {
        let code: i64 = kani::any();
        let args = [SemValue::Literal(Literal::Integer(IntegerLiteral::Int64(code)))];
        let r = call!(exit, &args);
        let got = match &r { Err(c) => Some(*c), Ok(_) => None };
        core::mem::forget(r); core::mem::forget(args);
        assert!(got == Some(code as i32));
    }
    /// str_scalar_length / str_byte_length, BOUNDED (fixed strings): lengths in Unicode scalar values vs bytes
    #[kani::proof]
    #[kani::unwind(13)]
    fn str_lengths_whole() {
        let args = [SemValue::Literal(Literal::String(Utf8String::from("a\u{e9}\u{20ac}\u{1f600}")))];
        let r1 = call!(str_scalar_length, &args);
        let r2 = call!(str_byte_length, &args);
        let (g1, g2) = (returned_i64(&r1), returned_i64(&r2));
        core::mem::forget(r1); core::mem::forget(r2); core::mem::forget(args);
        assert!(g1 == Some(4) && g2 == Some(10));
    }
    /// char_to_str, BOUNDED (one character of each UTF-8 width, symbolic choice): a one-scalar string of that character
    #[kani::proof]
    #[kani::unwind(8)]
    fn char_to_str_whole() {
        let k: usize = kani::any();
        kani::assume(k < 4);
        let c = ['a', '\u{e9}', '\u{20ac}', '\u{1f600}'][k];
        let args = [SemValue::Literal(Literal::Char(c))];
        let r = call!(char_to_str, &args);
        let ok = match returned(&r) { Some(SemValue::Literal(Literal::String(s))) => s.byte_len() == c.len_utf8(), _ => false };
        core::mem::forget(r); core::mem::forget(args);
        assert!(ok);
    }
    fn returned_bytes(r: &Result<Computation, i32>) -> Option<(usize, Option<u8>, Option<u8>)> {
        match returned(r) { Some(SemValue::Host(HostValue::Bytes(b))) => Some((b.len(), b.first().copied(), b.last().copied())), _ => None }
    }
    /// bytes_empty: nullary, returns a byte buffer of length 0
    #[kani::proof]
    #[kani::unwind(3)]
    fn bytes_empty_whole() {
        let none: [SemValue; 0] = [];
        let r = call!(bytes_empty, &none);
        let got = returned_bytes(&r);
        core::mem::forget(r);
        assert!(got == Some((0, None, None)));
    }
    /// bytes_append over symbolic contents of two fixed-length buffers (BOUNDED lengths 2 and 1): first then second, nothing lost
    #[kani::proof]
    #[kani::unwind(5)]
    fn bytes_append_whole() {
        let (a0, a1, b0): (u8, u8, u8) = (kani::any(), kani::any(), kani::any());
        let args = [SemValue::Host(HostValue::Bytes(Rc::from([a0, a1]))), SemValue::Host(HostValue::Bytes(Rc::from([b0])))];
        let r = call!(bytes_append, &args);
        let got = returned_bytes(&r);
        let mid = match returned(&r) { Some(SemValue::Host(HostValue::Bytes(b))) if b.len() == 3 => Some(b[1]), _ => None };
        core::mem::forget(r); core::mem::forget(args);
        assert!(got == Some((3, Some(a0), Some(b0))) && mid == Some(a1));
    }
    /// bytes_from_str, BOUNDED (fixed string with 1-4 byte encodings): the UTF-8 encoding, byte for byte in length and ends
    #[kani::proof]
    #[kani::unwind(13)]
    fn bytes_from_str_whole() {
        let args = [SemValue::Literal(Literal::String(Utf8String::from("a\u{e9}\u{20ac}\u{1f600}")))];
        let r = call!(bytes_from_str, &args);
        let got = returned_bytes(&r);
        core::mem::forget(r); core::mem::forget(args);
        assert!(got == Some((10, Some(b'a'), Some(0x80))));
    }
    /// str_append, BOUNDED (fixed strings): the concatenation, first then second, byte for byte
    #[kani::proof]
    #[kani::unwind(9)]
    fn str_append_whole() {
        let args = [SemValue::Literal(Literal::String(Utf8String::from("a\u{e9}"))), SemValue::Literal(Literal::String(Utf8String::from("\u{20ac}b")))];
        let r = call!(str_append, &args);
        let ok = match returned(&r) { Some(SemValue::Literal(Literal::String(s))) => { let b = s.as_str().as_bytes(); b.len() == 7 && b[0] == b'a' && b[1] == 0xC3 && b[3] == 0xE2 && b[6] == b'b' }, _ => false };
        core::mem::forget(r); core::mem::forget(args);
        assert!(ok);
    }
    /// stdin / stdout / stderr: nullary, return the injected standard capabilities (and not each other's)
    #[kani::proof]
    fn standard_streams_whole() {
        let none: [SemValue; 0] = [];
        let r0 = call!(stdin, &none);
        let r1 = call!(stdout, &none);
        let r2 = call!(stderr, &none);
        let ok0 = matches!(returned(&r0), Some(SemValue::Host(HostValue::Reader(h))) if *h == ReaderHandle::STDIN);
        let ok1 = matches!(returned(&r1), Some(SemValue::Host(HostValue::Writer(h))) if *h == WriterHandle::STDOUT);
        let ok2 = matches!(returned(&r2), Some(SemValue::Host(HostValue::Writer(h))) if *h == WriterHandle::STDERR);
        core::mem::forget(r0); core::mem::forget(r1); core::mem::forget(r2);
        assert!(ok0 && ok1 && ok2);
    }
}

// ---------- whole host functions WITH continuation arguments (rules R9 + R11) ----------
// Continuations are distinguishable marker values (R11 lets the real slice patterns accept them), so what is proved is the real
// function from argument destructuring to the selected continuation: positions, order, arity, kernel, selection.
#[cfg(kani)]
mod branch_hosts {
    use super::*;
    macro_rules! call {
        ($f:ident, $args:expr) => {{
            let mut input = std::io::empty();
            let mut output = std::io::sink();
            let mut host = HostRuntime;
            $f($args, &mut input, &mut output, &[], &mut host)
        }};
    }
    /// what the resulting computation does: Force(marker m) applied to k arguments -> (m, first applied argument if any)
    fn forced(c: &Computation) -> Option<i64> {
        match c {
            | Computation::Force(Force(v)) => match v.as_ref() {
                | Value::SemValue(SemValue::Literal(Literal::Integer(IntegerLiteral::Int64(m)))) => Some(*m),
                | _ => None,
            },
            | _ => None,
        }
    }
    fn selected(r: &Result<Computation, i32>) -> Option<(i64, usize)> {
        // loop-free: a continuation is applied to at most two arguments
        let Ok(c) = r.as_ref() else { return None };
        match c {
            | Computation::VApp(App(b1, _)) => match b1.as_ref() {
                | Computation::VApp(App(b2, _)) => forced(b2.as_ref()).map(|m| (m, 2)),
                | other => forced(other).map(|m| (m, 1)),
            },
            | other => forced(other).map(|m| (m, 0)),
        }
    }
    fn outer_arg_char(r: &Result<Computation, i32>) -> Option<char> {
        match r { Ok(Computation::VApp(App(_, a))) => match a.as_ref() { Value::SemValue(SemValue::Literal(Literal::Char(c))) => Some(*c), _ => None }, _ => None }
    }
    // whole integer_branch / float_branch / str_eq_branch / bytes_to_str_branch were tried with marker continuations as well: CBMC does not
    // finish (20 min; `Branch::select` clones through a pointer chosen by a symbolic condition). Their comparison dispatch, kernels and
    // `Branch::select` are proved separately.

    /// whole str_get_branch, BOUNDED string family, fully symbolic Int64 index: in range -> when_some (4th argument) applied to the
    /// scalar at that position; otherwise (negative, too large) -> when_none (3rd argument); never fails
    fn check_get(s: &str, scalars: &[char]) {
        let i: i64 = kani::any();
        let args = [SemValue::Literal(Literal::String(Utf8String::from(s))), SemValue::Literal(Literal::Integer(IntegerLiteral::Int64(i))), marker(10), marker(11)];
        let r = call!(str_get_branch, &args);
        let (got, ch) = (selected(&r), outer_arg_char(&r));
        core::mem::forget(r); core::mem::forget(args);
        if i >= 0 && (i as u128) < scalars.len() as u128 { assert!(got == Some((11, 1)) && ch == Some(scalars[i as usize])); } else { assert!(got == Some((10, 0))); }
    }
    #[kani::proof] #[kani::unwind(13)] fn str_get_branch_whole_mixed() { check_get("a\u{e9}\u{20ac}\u{1f600}", &['a', '\u{e9}', '\u{20ac}', '\u{1f600}']) }
    #[kani::proof] #[kani::unwind(13)] fn str_get_branch_whole_empty() { check_get("", &[]) }

    /// whole str_split_at_branch: 0 <= i <= n -> when_some applied to TWO strings; otherwise when_none
    #[kani::proof]
    #[kani::unwind(13)]
    fn str_split_at_branch_whole() {
        let i: i64 = kani::any();
        let args = [SemValue::Literal(Literal::String(Utf8String::from("a\u{e9}\u{20ac}\u{1f600}"))), SemValue::Literal(Literal::Integer(IntegerLiteral::Int64(i))), marker(10), marker(11)];
        let r = call!(str_split_at_branch, &args);
        let got = selected(&r);
        core::mem::forget(r); core::mem::forget(args);
        assert!(got == Some(if i >= 0 && i <= 4 { (11, 2) } else { (10, 0) }));
    }
    /// whole char_from_codepoint_branch over all i64: scalar value -> when_some (3rd) applied to that character; else when_none (2nd)
    #[kani::proof]
    fn char_from_codepoint_branch_whole() {
        let cp: i64 = kani::any();
        let args = [SemValue::Literal(Literal::Integer(IntegerLiteral::Int64(cp))), marker(10), marker(11)];
        let r = call!(char_from_codepoint_branch, &args);
        let (got, ch) = (selected(&r), outer_arg_char(&r));
        core::mem::forget(r); core::mem::forget(args);
        let scalar = (0..=0x10FFFF).contains(&cp) && !(0xD800..=0xDFFF).contains(&cp);
        if scalar { assert!(got == Some((11, 1)) && ch.map(|c| c as u32 as i64) == Some(cp)); } else { assert!(got == Some((10, 0))); }
    }

    fn outer_arg_i64(r: &Result<Computation, i32>) -> Option<i64> {
        match r { Ok(Computation::VApp(App(_, a))) => match a.as_ref() { Value::SemValue(SemValue::Literal(Literal::Integer(IntegerLiteral::Int64(v)))) => Some(*v), _ => None }, _ => None }
    }
    /// whole str_parse_int_branch, BOUNDED (one fixed text per harness): a decimal Int64 -> when_some (3rd) applied to exactly that
    /// integer; anything else (empty, not a number, out of the Int64 range) -> when_none (2nd); never fails
    fn check_parse(text: &str, want: Option<i64>) {
        let args = [SemValue::Literal(Literal::String(Utf8String::from(text))), marker(10), marker(11)];
        let r = call!(str_parse_int_branch, &args);
        let (got, v) = (selected(&r), outer_arg_i64(&r));
        core::mem::forget(r); core::mem::forget(args);
        match want { Some(w) => assert!(got == Some((11, 1)) && v == Some(w)), None => assert!(got == Some((10, 0))) }
    }
    #[kani::proof] #[kani::unwind(22)] fn str_parse_int_whole_negative() { check_parse("-7", Some(-7)) }
    #[kani::proof] #[kani::unwind(22)] fn str_parse_int_whole_min() { check_parse("-9223372036854775808", Some(i64::MIN)) }
    #[kani::proof] #[kani::unwind(22)] fn str_parse_int_whole_overflow() { check_parse("9223372036854775808", None) }
    #[kani::proof] #[kani::unwind(22)] fn str_parse_int_whole_empty() { check_parse("", None) }
    #[kani::proof] #[kani::unwind(22)] fn str_parse_int_whole_text() { check_parse("4x", None) }
    /// whole bytes_to_str_branch, BOUNDED (fixed buffers): valid UTF-8 -> when_valid (3rd) applied to a string; invalid -> when_invalid (2nd)
    fn check_decode(bytes: &[u8], valid: bool) {
        let args = [SemValue::Host(zydeco_dynamics::host::HostValue::Bytes(Rc::from(bytes))), marker(10), marker(11)];
        let r = call!(bytes_to_str_branch, &args);
        let got = selected(&r);
        core::mem::forget(r); core::mem::forget(args);
        assert!(got == Some(if valid { (11, 1) } else { (10, 0) }));
    }
    #[kani::proof] #[kani::unwind(8)] fn bytes_to_str_whole_valid() { check_decode(&[b'a', 0xC3, 0xA9], true) }
    #[kani::proof] #[kani::unwind(8)] fn bytes_to_str_whole_truncated() { check_decode(&[b'a', 0xC3], false) }
    #[kani::proof] #[kani::unwind(8)] fn bytes_to_str_whole_empty() { check_decode(&[], true) }

    /// whole str_eq_branch, BOUNDED (fixed strings): equal -> when_true (3rd), different (also: equal up to a prefix, different
    /// normalisation of the same glyph) -> when_false (4th)
    fn check_eq(a: &str, b: &str, equal: bool) {
        let args = [SemValue::Literal(Literal::String(Utf8String::from(a))), SemValue::Literal(Literal::String(Utf8String::from(b))), marker(10), marker(11)];
        let r = call!(str_eq_branch, &args);
        let got = selected(&r);
        core::mem::forget(r); core::mem::forget(args);
        assert!(got == Some(if equal { (10, 0) } else { (11, 0) }));
    }
    #[kani::proof] #[kani::unwind(8)] fn str_eq_whole_equal() { check_eq("a\u{e9}", "a\u{e9}", true) }
    #[kani::proof] #[kani::unwind(8)] fn str_eq_whole_prefix() { check_eq("a\u{e9}", "a\u{e9}b", false) }
    #[kani::proof] #[kani::unwind(8)] fn str_eq_whole_normalisation() { check_eq("\u{e9}", "e\u{301}", false) }

    /// whole arg_fold, BOUNDED (0 and 2 command-line arguments): a lazy RIGHT fold in argument order -- no arguments -> when_empty (1st)
    /// forced; otherwise when_item (2nd) applied to the FIRST argument and to a thunk of the fold over the rest
    fn fold_head(c: &Computation) -> Option<(i64, Option<u8>, &Computation)> {
        // App(App(Force(marker), String(arg)), Thunk(rest))
        match c {
            | Computation::VApp(App(inner, tail)) => match (inner.as_ref(), tail.as_ref()) {
                | (Computation::VApp(App(f, a)), Value::Thunk(Thunk(rest))) => match (forced(f.as_ref()), a.as_ref()) {
                    | (Some(m), Value::SemValue(SemValue::Literal(Literal::String(s)))) => Some((m, s.as_str().as_bytes().first().copied(), rest.as_ref())),
                    | _ => None,
                },
                | _ => None,
            },
            | _ => None,
        }
    }
    #[kani::proof] #[kani::unwind(4)]
    fn arg_fold_whole_empty() {
        let args = [marker(10), marker(11)];
        let (mut input, mut output, mut host) = (std::io::empty(), std::io::sink(), HostRuntime);
        let r = arg_fold(&args, &mut input, &mut output, &[], &mut host);
        let got = selected(&r);
        core::mem::forget(r); core::mem::forget(args);
        assert!(got == Some((10, 0)));
    }
    #[kani::proof] #[kani::unwind(4)]
    fn arg_fold_whole_two() {
        let args = [marker(10), marker(11)];
        let argv = [String::from("x"), String::from("y")];
        let (mut input, mut output, mut host) = (std::io::empty(), std::io::sink(), HostRuntime);
        let r = arg_fold(&args, &mut input, &mut output, &argv, &mut host);
        let ok = match &r {
            | Ok(c) => match fold_head(c) {
                | Some((11, Some(b'x'), rest)) => match fold_head(rest) {
                    | Some((11, Some(b'y'), last)) => forced(last) == Some(10),
                    | _ => false,
                },
                | _ => false,
            },
            | Err(_) => false,
        };
        core::mem::forget(r); core::mem::forget(args); core::mem::forget(argv);
        assert!(ok);
    }
}
