//! Kani harnesses for the ROUTING of host roles (C05/C06): `BuiltinRuntime::invoke`, copied verbatim, is compiled against
//! STUBS of the implementation functions (generated from the `pub fn` list of impls.rs) that only report which function was
//! entered and with which (type, operation). Contract: a non-numeric role enters the function named `role.host_name()`
//! (the runtime symbol table of lang/syntax), a numeric role enters integer_/float_ arithmetic / branch / to_string
//! according to its operation, with the role's own type and operation passed on.
#![allow(unused, clippy::all)]
pub struct SemValue;
pub struct Computation;
pub struct HostRuntime;
pub mod impls;
mod extracted;
use zydeco_syntax::*;

pub fn route(role: BuiltinValueRole) -> i32 {
    let mut input = std::io::empty();
    let mut output = std::io::sink();
    let mut host = HostRuntime;
    match extracted::invoke(role, Vec::new(), &mut input, &mut output, &[], &mut host) {
        | Err(code) => code,
        | Ok(_) => -1,
    }
}

#[cfg(kani)]
mod routes;
