// Generated on every run by /verif/vf/extract.py from /repo's working tree. Item text is copied byte for byte.
#![allow(unused)]
use crate::{Computation, HostRuntime, SemValue};
use std::io::{BufRead, Write};
use zydeco_syntax::{BuiltinValueRole, FloatOperation, IntegerOperation};

/*@fn lang/dynamics/src/builtin.rs :: impl BuiltinRuntime :: fn invoke
  plain
@*/
/*@end*/
