//! Kani harnesses for property C10 (front-end totality, leaf obligations).
#![allow(unused, clippy::all)]
extern crate alloc;
mod extracted;
use extracted::*;
use zydeco_utils::span::{Cursor2, FileInfo};

#[cfg(kani)]
mod compact {
    use super::*;
    /// packed cursors: `with_cursor` is Some exactly inside the 18/14-bit budget, and `cursor` inverts it.
    /// Loop-free over all (usize, usize): complete.
    #[kani::proof]
    fn compact_cursor_roundtrip() {
        let line: usize = kani::any();
        let column: usize = kani::any();
        let packed = CompactCursor2::with_cursor(Cursor2 { line, column });
        let fits = (line as u128) + 1 <= ((1u128 << 18) - 1) && (column as u128) <= ((1u128 << 14) - 1);
        assert!(packed.is_some() == fits);
        if let Some(p) = packed {
            let c = p.cursor();
            assert!(c.line == line && c.column == column);
        }
    }
    /// packed spans (what `Span::set_info` stores): `with_cursors` is Some exactly when BOTH ends fit, and `cursors`
    /// gives back the same (start, end) in the same order. Loop-free over all four usizes: complete.
    #[kani::proof]
    fn compact_span_roundtrip() {
        let (l0, c0, l1, c1): (usize, usize, usize, usize) = (kani::any(), kani::any(), kani::any(), kani::any());
        let fits = |line: usize, column: usize| (line as u128) + 1 <= ((1u128 << 18) - 1) && (column as u128) <= ((1u128 << 14) - 1);
        let packed = CompactSpan2::with_cursors(Cursor2 { line: l0, column: c0 }, Cursor2 { line: l1, column: c1 });
        assert!(packed.is_some() == (fits(l0, c0) && fits(l1, c1)));
        if let Some(p) = packed {
            let (s, e) = p.cursors();
            assert!(s.line == l0 && s.column == c0 && e.line == l1 && e.column == c1);
        }
    }
    /// `cursor` never underflows/panics on any value `with_cursor` can produce (NonZeroU32 with line_plus_one >= 1)
    #[kani::proof]
    fn compact_cursor_total() {
        let line: usize = kani::any();
        let column: usize = kani::any();
        if let Some(p) = CompactCursor2::with_cursor(Cursor2 { line, column }) {
            let _ = p.cursor();
            assert!(p.0.get() >> 14 >= 1);
        }
    }
}

#[cfg(kani)]
mod chars {
    use super::*;
    /// Char action precondition = the CharLit rule `'([ -~]|\\[nrt'|(\\)])'`: a FINITE language (95 + 8 strings).
    /// Symbolic over all of it: complete. No panic; the denoted character is the written one / the escape's meaning.
    #[kani::proof]
    #[kani::unwind(6)]
    fn char_escape_plain() {
        let c: u8 = kani::any();
        kani::assume(c >= b' ' && c <= b'~' && c != b'\\');
        let bytes = [b'\'', c, b'\''];
        let s = core::str::from_utf8(&bytes).unwrap();
        assert!(apply_char_escapes(s) == c as char);
    }
    #[kani::proof]
    #[kani::unwind(6)]
    fn char_escape_backslash_alone() {
        // `'\'` matches the first alternative ([ -~] contains the backslash)
        assert!(apply_char_escapes("'\\'") == '\\');
    }
    #[kani::proof]
    #[kani::unwind(7)]
    fn char_escape_escaped() {
        let e: u8 = kani::any();
        kani::assume(e == b'n' || e == b'r' || e == b't' || e == b'\'' || e == b'|' || e == b'(' || e == b'\\' || e == b')');
        let bytes = [b'\'', b'\\', e, b'\''];
        let s = core::str::from_utf8(&bytes).unwrap();
        let got = apply_char_escapes(s);
        let want = match e { b'n' => '\n', b'r' => '\r', b't' => '\t', b'\'' => '\'', _ => '\\' };
        // documented behaviour for the remaining escapes (`\|`, `\(`, `\\`, `\)`) is the backslash itself
        assert!(got == want);
    }
}

// String escapes (apply_string_escapes) and FileInfo::new iterate over `str` with symbolic contents: CBMC did not finish
// at 2 symbolic ASCII bytes (measured: 240 s timeout), Verus has no `char_indices`. They are NOT under contract; the replay
// binary evaluates their contracts dynamically on enumerated sources on every run (not a proof, listed under not_covered).

#[cfg(kani)]
mod render {
    use super::*;
    /// `fmt_expected` (rendering of LALRPOP's expected-token list), BOUNDED: lists of 0..=3 concrete entries. No panic
    /// (in particular on the EMPTY list LALRPOP produces for a token in the accept state); empty list renders as "".
    fn stub_format(_args: core::fmt::Arguments<'_>) -> String { String::from("x") }
    fn check(n: usize) {
        let all = [String::from("\"a\""), String::from("\"b\""), String::from("\"c\"")];
        let out = fmt_expected(&all[..n]);
        assert!((n == 0) == out.is_empty());
        core::mem::forget(out);
    }
    #[kani::proof] #[kani::unwind(8)] fn fmt_expected_len0() { check(0) }
    // `format!` dominates CBMC's cost (timeout at one entry); it is stubbed here, so these two decide panic-freedom of the
    // separator arithmetic (`i < expected.len() - 1`) and non-emptiness only, not the rendered text
    #[kani::proof] #[kani::unwind(8)] #[kani::stub(alloc::fmt::format, stub_format)] fn fmt_expected_len1() { check(1) }
    #[kani::proof] #[kani::unwind(8)] #[kani::stub(alloc::fmt::format, stub_format)] fn fmt_expected_len3() { check(3) }
}

#[cfg(kani)]
mod strings {
    use super::*;
    /// the `String` grammar action on a fixed family of StrLit tokens, BOUNDED (concrete tokens chosen to cover: empty, plain,
    /// every escape class, an escape as the LAST character before the closing quote, a backslash pair at the end):
    /// no panic, output length = interior length minus the number of escapes
    fn check(tok: &str, want_len: usize) {
        let out = string_action(tok);
        assert!(out.len() == want_len);
        core::mem::forget(out);
    }
    #[kani::proof] #[kani::unwind(12)] fn string_action_empty() { check("\"\"", 0) }
    #[kani::proof] #[kani::unwind(12)] fn string_action_plain() { check("\"ab\"", 2) }
    #[kani::proof] #[kani::unwind(12)] fn string_action_escaped_quote_last() { check("\"a\\\"\"", 2) }
    #[kani::proof] #[kani::unwind(12)] fn string_action_only_escaped_quote() { check("\"\\\"\"", 1) }
    #[kani::proof] #[kani::unwind(12)] fn string_action_backslash_pair_last() { check("\"a\\\\\"", 2) }
    #[kani::proof] #[kani::unwind(12)] fn string_action_escapes() { check("\"\\n\\t\\q\"", 3) }
}
