// Generated on every run by /verif/vf/extract.py from /repo's working tree. Item text is copied byte for byte.
use std::num::NonZeroU32;
use zydeco_utils::span::Cursor2;

/*@type lang/utils/src/span.rs :: struct CompactCursor2
   derive Clone, Copy, Debug, PartialEq, Eq
@*/

impl CompactCursor2 {
/*@type lang/utils/src/span.rs :: impl CompactCursor2 :: const COLUMN_BITS @*/
/*@type lang/utils/src/span.rs :: impl CompactCursor2 :: const COLUMN_MASK @*/
/*@type lang/utils/src/span.rs :: impl CompactCursor2 :: const LINE_PLUS_ONE_MAX @*/

/*@fn lang/utils/src/span.rs :: impl CompactCursor2 :: fn with_cursor
  plain
@*/
/*@end*/

/*@fn lang/utils/src/span.rs :: impl CompactCursor2 :: fn cursor
  plain
@*/
/*@end*/
}

/*@type lang/utils/src/span.rs :: struct CompactSpan2
   derive Clone, Copy, Debug, PartialEq, Eq
@*/
impl CompactSpan2 {
/*@fn lang/utils/src/span.rs :: impl CompactSpan2 :: fn with_cursors
  plain
@*/
/*@end*/

/*@fn lang/utils/src/span.rs :: impl CompactSpan2 :: fn cursors
  plain
@*/
/*@end*/
}

/*@fn lang/surface/src/textual/escape.rs :: fn apply_char_escapes
  plain
@*/
/*@end*/

/*@fn lang/surface/src/textual/err.rs :: fn fmt_expected
  plain
@*/
/*@end*/

/*@fn lang/surface/src/textual/escape.rs :: fn apply_string_escapes
  plain
@*/
/*@end*/
pub mod escape { pub use super::apply_string_escapes; }
/*@action lang/surface/src/textual/parser.lalrpop :: rule String :: action 0
   fn string_action
   ret String
   symbols "StrLit"
   plain
@*/
/*@end*/
