// Unit c05_sites — property C05: the CALL SITES of the literal range check: the checker's default path (query.rs) and its annotated
// path (check/mod.rs, the two literal arms under `Switch::Ana`) -- originally only the default path:
// the CALL SITE of the literal range check on the checker's default path
// (lang/statics/src/query.rs, fn literal_syn_judgment): an unannotated integer literal is an Int64 and is rejected exactly outside
// the Int64 range; an unannotated float literal is a Float64 with its bits preserved. The two literal arms of the function's
// `match lit` are extracted (rule R10) and verified against the CONTRACT of IntegerLiteral::with_type (same text as unit c05_literal,
// included from its template and proved again here) and the contract of FloatLiteral::with_type (assumed here, proved by Kani).
use vstd::prelude::*;
verus! {

/*@type lang/syntax/src/lib.rs :: enum IntegerType
   derive Clone, Copy
@*/
/*@type lang/syntax/src/lib.rs :: enum IntegerLiteral
   derive Clone, Copy
@*/
/*@type lang/syntax/src/lib.rs :: enum FloatType
   derive Clone, Copy
@*/
/*@type lang/syntax/src/lib.rs :: enum FloatLiteral
   derive Clone, Copy
@*/
/*@type lang/syntax/src/lib.rs :: enum PrimitiveType
   derive Clone, Copy
@*/
/*@type lang/syntax/src/lib.rs :: enum Literal @*/
// stand-in: only carried, never inspected, by the code under contract
pub struct Utf8String { pub s: String }
impl Clone for Utf8String { #[verifier::external_body] fn clone(&self) -> (r: Self) ensures r == *self { unimplemented!() } }

/*@include c05_literal/unit.rs.tpl :: SHARED-SPEC-BEGIN .. SHARED-SPEC-END @*/
impl IntegerLiteral {
/*@include c05_literal/unit.rs.tpl :: SHARED-IMPL-BEGIN .. SHARED-IMPL-END @*/
}

// A-std-abs: std integer helpers a range test may be written with (no vstd specification); mathematical meaning assumed
pub assume_specification[ i128::unsigned_abs ](v: i128) -> (r: u128) ensures r as int == (if v < 0 { -(v as int) } else { v as int });
pub assume_specification[ i64::unsigned_abs ](v: i64) -> (r: u64) ensures r as int == (if v < 0 { -(v as int) } else { v as int });

// `IntegerLiteral::from(i64)` as the real trait impl, so a call site that builds its literal that way is verified against [FROM-I64]
impl vstd::std_specs::convert::FromSpecImpl<i64> for IntegerLiteral {
    open spec fn obeys_from_spec() -> bool { true }
    // [FROM-I64] an i64 host value becomes an Int64 literal with the same value
    open spec fn from_spec(v: i64) -> Self { IntegerLiteral::Int64(v) }
}
impl core::convert::From<i64> for IntegerLiteral {
/*@fn lang/syntax/src/lib.rs :: impl From<i64> for IntegerLiteral :: fn from
   nopub
@*/
/*@end*/
}

// ---- A-float-with_type: the contract of FloatLiteral::{with_type, value} is PROVED by Kani (unit c05_kani, [FLIT-F64], [FLIT-F32],
// [FLIT-VALUE], all bit patterns) and assumed here (IEEE arithmetic is outside Verus) ----
pub uninterp spec fn f64_of(l: FloatLiteral) -> f64;           // the binary64 value a literal denotes (exact widening for binary32)
pub uninterp spec fn bits_of(v: f64) -> u64;
pub broadcast proof fn axiom_f64_literal_bits(b: u64)
    ensures #[trigger] bits_of(f64_of(FloatLiteral::Float64(b))) == b { admit(); }
impl FloatLiteral {
    #[verifier::external_body]
    pub fn value(self) -> (r: f64) ensures r == f64_of(self) { unimplemented!() }
    #[verifier::external_body]
    pub fn with_type(self, float_type: FloatType) -> (r: Option<FloatLiteral>)
        ensures
            float_type is Float64 ==> r == Some(FloatLiteral::Float64(bits_of(f64_of(self)))),
            float_type is Float32 ==> (r is Some <==> fits_f32(self)) && (r is Some ==> r.unwrap() == FloatLiteral::Float32(narrowed_bits(self))),
    { unimplemented!() }
}
// [FLIT-F32]: a literal fits binary32 iff it is not finite or stays finite after narrowing; `narrowed_bits` is the correctly rounded binary32
pub uninterp spec fn fits_f32(l: FloatLiteral) -> bool;
pub uninterp spec fn narrowed_bits(l: FloatLiteral) -> u32;

// ---- stand-ins for the checker's arena vocabulary (signature only) ----
pub mod ss {
    use vstd::prelude::*;
    pub use super::{PrimitiveType, IntegerType, FloatType};
    pub struct ValueId { pub raw: u64 }
    #[derive(Clone, Copy)]
    pub struct TypeId { pub raw: u64 }
    #[derive(Clone, Copy)]
    pub struct KindId { pub raw: u64 }
    pub struct TyEnv { pub raw: u64 }
    pub enum Value { Lit(super::Literal) }
    pub struct PrimitiveTy(pub PrimitiveType);
    impl PrimitiveTy {
        #[verifier::external_body]
        pub fn build(self, tycker: &mut super::Tycker, env: &TyEnv) -> (r: TypeId) ensures r == super::prim_ty(self.0) { unimplemented!() }
    }
}
pub use Literal as Lit;
pub use check::TyckError;
// the annotated path (check/mod.rs): the CPS checker's vocabulary, signature only. `err_k` records the error and answers Err (that is
// all the arms rely on: `err_k(..)?` leaves the function); `primitive_type` / `Lub::lub_k` are uninterpreted functions of their arguments
#[derive(Clone, Copy)]
pub enum AnnId { Set, Kind(ss::KindId), Type(ss::TypeId) }
pub enum Switch<Ann> { Syn, Ana(Ann) }
pub struct KontFailure { pub raw: u64 }
pub type ResultKont<T> = Result<T, KontFailure>;
pub struct Tycker { pub errors: Ghost<Seq<check::TyckError>> }
pub uninterp spec fn prim_of(ty: ss::TypeId) -> Option<PrimitiveType>;
pub uninterp spec fn lub_of(a: ss::TypeId, b: ss::TypeId) -> ss::TypeId;
#[verifier::external_type_specification]
#[verifier::external_body]
pub struct ExLocation<'a>(std::panic::Location<'a>);
pub assume_specification<'a>[ std::panic::Location::<'a>::caller ]() -> (r: &'static std::panic::Location<'static>);
impl Tycker {
    #[verifier::external_body]
    pub fn err_k<T>(&mut self, error: check::TyckError, blame: &'static std::panic::Location<'static>) -> (r: ResultKont<T>)
        ensures r is Err, final(self).errors@ == old(self).errors@.push(error)
    { unimplemented!() }
}
#[verifier::external_body]
pub fn primitive_type(tycker: &Tycker, ty: ss::TypeId) -> (r: Option<ss::PrimitiveType>) ensures r == prim_of(ty) { unimplemented!() }
pub struct Lub;
impl Lub {
    #[verifier::external_body]
    pub fn lub_k(a: ss::TypeId, b: ss::TypeId, tycker: &mut Tycker) -> (r: ResultKont<ss::TypeId>)
        ensures r is Ok ==> r->Ok_0 == lub_of(a, b) && final(tycker).errors@ == old(tycker).errors@
    { unimplemented!() }
}
pub struct Site { pub info: ss::TyEnv }
pub mod check {
    use vstd::prelude::*;
    // the two variants the literal arms construct (the real enum has many more)
    pub enum TyckError {
        SortMismatch,
        IntegerLiteralOutOfRange { value: i128, integer_type: super::IntegerType },
        FloatLiteralOutOfRange { value: f64, float_type: super::FloatType },
    }
}
/*@type lang/statics/src/query.rs :: enum LiteralSynOutcome @*/
// `primitive_ty` is a closure of the real function (it looks the primitive's singleton type up); here: an uninterpreted function of the primitive
pub uninterp spec fn prim_ty(p: PrimitiveType) -> ss::TypeId;
#[verifier::external_body]
pub fn primitive_ty(p: PrimitiveType) -> (r: ss::TypeId) ensures r == prim_ty(p) { unimplemented!() }
#[verifier::external_body]
pub fn site_id() -> ss::ValueId { unimplemented!() }

// The wrappers' last line restates the function's last line (`Some(LiteralSynOutcome::Value { id, value: ss::Value::Lit(lit), ty })`);
// what is extracted and verified is the arm block between `let (lit, ty) =` and `;`.
pub fn syn_integer_site($syn_int.0: &IntegerLiteral) -> (r: Option<LiteralSynOutcome>)
    ensures
        // [SYN-INT-RANGE] an unannotated integer literal is an Int64: it is rejected exactly when outside [-2^63, 2^63 - 1]
        (r matches Some(LiteralSynOutcome::Error(_))) <==> !(lo(IntegerType::Int64) <= mval(*$syn_int.0) <= hi(IntegerType::Int64)),
        // [SYN-INT-EXACT] when accepted: carried as Int64, exactly the literal's value, at the Int64 primitive type; never silently dropped
        lo(IntegerType::Int64) <= mval(*$syn_int.0) <= hi(IntegerType::Int64) ==>
            (r matches Some(LiteralSynOutcome::Value { value: ss::Value::Lit(Literal::Integer(l)), ty, .. })
                && mval(l) == mval(*$syn_int.0) && mtype(l) == Some(IntegerType::Int64) && ty == prim_ty(PrimitiveType::Integer(IntegerType::Int64))),
        // [SYN-INT-ERROR] the diagnostic names the exact value and the type it does not fit
        r matches Some(LiteralSynOutcome::Error(e)) ==>
            (e matches check::TyckError::IntegerLiteralOutOfRange { value, integer_type } && value as int == mval(*$syn_int.0) && integer_type is Int64),
{
    let (lit, ty) =
/*@arm lang/statics/src/query.rs :: fn literal_syn_judgment :: arm /Literal..Integer\(\w+\)/
   bind syn_int
@*/
    ;
    Some(LiteralSynOutcome::Value { id: site_id(), value: ss::Value::Lit(lit), ty })
}

pub fn syn_float_site(lit_in: &FloatLiteral) -> (r: Option<LiteralSynOutcome>)
    ensures
        // [SYN-FLOAT] an unannotated float literal is a Float64: always accepted, bits preserved, at the Float64 primitive type
        r matches Some(LiteralSynOutcome::Value { value: ss::Value::Lit(Literal::Float(l)), ty, .. })
            && l == FloatLiteral::Float64(bits_of(f64_of(*lit_in))) && ty == prim_ty(PrimitiveType::Float(FloatType::Float64)),
{
    let $syn_float.0 = *lit_in;
    let (lit, ty) =
/*@arm lang/statics/src/query.rs :: fn literal_syn_judgment :: arm /Literal..Float\(\w+\)/
   bind syn_float
@*/
    ;
    Some(LiteralSynOutcome::Value { id: site_id(), value: ss::Value::Lit(lit), ty })
}

// ---- the annotated path: the two literal arms of the checker's `match lit` under `Switch::Ana(annotation)` (check/mod.rs, rule R10).
// The wrappers' first line restates the enclosing arm's `let switch = Switch::Ana(annotation);`, their last the tuple the arm yields. ----
// what the annotation asks for
pub open spec fn ann_int(a: AnnId) -> Option<(ss::TypeId, IntegerType)> {
    match a { AnnId::Type(ty) => match prim_of(ty) { Some(PrimitiveType::Integer(t)) => Some((ty, t)), _ => None }, _ => None }
}
pub open spec fn ann_float(a: AnnId) -> Option<(ss::TypeId, FloatType)> {
    match a { AnnId::Type(ty) => match prim_of(ty) { Some(PrimitiveType::Float(t)) => Some((ty, t)), _ => None }, _ => None }
}
pub open spec fn ann_type(a: AnnId) -> Option<ss::TypeId> { match a { AnnId::Type(ty) => Some(ty), _ => None } }
impl Site {
    pub fn ana_integer_site(&self, tycker: &mut Tycker, annotation: AnnId, $ana_int.0: IntegerLiteral) -> (r: ResultKont<(Lit, ss::TypeId)>)
        ensures
            // [ANA-INT-RANGE] checked against an integer primitive type t: accepted exactly inside t's range, carried at t with its exact
            // value, at the annotated type
            ann_int(annotation) matches Some((ty, t)) ==>
                ((r is Ok <==> lo(t) <= mval($ana_int.0) <= hi(t))
                 && (r matches Ok((Literal::Integer(l), rty)) ==> mval(l) == mval($ana_int.0) && mtype(l) == Some(t) && rty == ty)),
            // [ANA-INT-DEFAULT] checked against any other type: treated as an Int64 literal (whose type must join with the annotation)
            ann_type(annotation) matches Some(ty) ==> (ann_int(annotation) is None ==>
                ((r is Ok ==> lo(IntegerType::Int64) <= mval($ana_int.0) <= hi(IntegerType::Int64))
                 && (r matches Ok((Literal::Integer(l), rty)) ==> mval(l) == mval($ana_int.0) && mtype(l) == Some(IntegerType::Int64)
                     && rty == lub_of(prim_ty(PrimitiveType::Integer(IntegerType::Int64)), ty)))),
            // [ANA-SORT] a kind or sort annotation is an error
            ann_type(annotation) is None ==> r is Err,
            r is Ok ==> r->Ok_0.0 is Integer,
            // [ANA-INT-ERROR] a rejected literal is reported with its exact value and the type it does not fit
            ann_int(annotation) matches Some((ty, t)) ==> (!(lo(t) <= mval($ana_int.0) <= hi(t)) ==>
                final(tycker).errors@.len() > 0 && (final(tycker).errors@.last() matches check::TyckError::IntegerLiteralOutOfRange { value, integer_type }
                    && value as int == mval($ana_int.0) && integer_type == t)),
    {
        let switch = Switch::Ana(annotation);
        let (lit, ty) =
/*@arm lang/statics/src/check/mod.rs :: impl Tyck<'a> for TyEnvT<su::TermId> :: fn tyck_inner_k :: arm /Lit::Integer\(\w+\)/
   bind ana_int
@*/
        ;
        Ok((lit, ty))
    }
    pub fn ana_float_site(&self, tycker: &mut Tycker, annotation: AnnId, $ana_float.0: FloatLiteral) -> (r: ResultKont<(Lit, ss::TypeId)>)
        ensures
            // [ANA-FLOAT-RANGE] checked against Float64: always accepted with its bits; against Float32: accepted exactly when it fits binary32,
            // carried as the correctly rounded binary32; at the annotated type
            ann_float(annotation) matches Some((ty, t)) ==>
                ((r is Ok <==> (t is Float64 || fits_f32($ana_float.0)))
                 && (r matches Ok((Literal::Float(l), rty)) ==> rty == ty
                     && l == (if t is Float64 { FloatLiteral::Float64(bits_of(f64_of($ana_float.0))) } else { FloatLiteral::Float32(narrowed_bits($ana_float.0)) }))),
            // [ANA-FLOAT-DEFAULT] checked against any other type: a Float64 with its bits
            ann_type(annotation) is Some ==> (ann_float(annotation) is None ==>
                (r matches Ok((Literal::Float(l), rty)) ==> l == FloatLiteral::Float64(bits_of(f64_of($ana_float.0))))),
            // [ANA-FLOAT-SORT]
            ann_type(annotation) is None ==> r is Err,
            r is Ok ==> r->Ok_0.0 is Float,
    {
        let switch = Switch::Ana(annotation);
        let (lit, ty) =
/*@arm lang/statics/src/check/mod.rs :: impl Tyck<'a> for TyEnvT<su::TermId> :: fn tyck_inner_k :: arm /Lit::Float\(\w+\)/
   bind ana_float
@*/
        ;
        Ok((lit, ty))
    }
}

// vacuity guards
pub proof fn reach_sites()
    ensures
        lo(IntegerType::Int64) <= mval(IntegerLiteral::Unresolved(0i128)) <= hi(IntegerType::Int64),
        !(lo(IntegerType::Int64) <= mval(IntegerLiteral::Unresolved(9223372036854775808i128)) <= hi(IntegerType::Int64)),
        !(lo(IntegerType::Int64) <= mval(IntegerLiteral::Unresolved(-9223372036854775809i128)) <= hi(IntegerType::Int64)),
{ }

} // verus!
fn main() {}
