// Unit c05_sites — property C05: the CALL SITE of the literal range check on the checker's default path
// (lang/statics/src/query.rs, fn literal_syn_judgment): an unannotated integer literal is an Int64 and is rejected exactly outside
// the Int64 range; an unannotated float literal is a Float64 with its bits preserved. The two literal arms of the function's
// `match lit` are extracted (rule R10) and verified against the CONTRACT of IntegerLiteral::with_type (same text as unit c05_literal,
// included from its template and proved again here) and the contract of FloatLiteral::with_type (assumed here, proved by Kani).
use vstd::prelude::*;
verus! {

/*@type lang/syntax/src/lib.rs :: enum IntegerType
   derive Clone, Copy
@*/
/*@type lang/syntax/src/lib.rs :: enum IntegerLiteral
   derive Clone, Copy
@*/
/*@type lang/syntax/src/lib.rs :: enum FloatType
   derive Clone, Copy
@*/
/*@type lang/syntax/src/lib.rs :: enum FloatLiteral
   derive Clone, Copy
@*/
/*@type lang/syntax/src/lib.rs :: enum PrimitiveType
   derive Clone, Copy
@*/
/*@type lang/syntax/src/lib.rs :: enum Literal @*/
// stand-in: only carried, never inspected, by the code under contract
pub struct Utf8String { pub s: String }
impl Clone for Utf8String { #[verifier::external_body] fn clone(&self) -> (r: Self) ensures r == *self { unimplemented!() } }

/*@include c05_literal/unit.rs.tpl :: SHARED-SPEC-BEGIN .. SHARED-SPEC-END @*/
impl IntegerLiteral {
/*@include c05_literal/unit.rs.tpl :: SHARED-IMPL-BEGIN .. SHARED-IMPL-END @*/
}

// A-std-abs: std integer helpers a range test may be written with (no vstd specification); mathematical meaning assumed
pub assume_specification[ i128::unsigned_abs ](v: i128) -> (r: u128) ensures r as int == (if v < 0 { -(v as int) } else { v as int });
pub assume_specification[ i64::unsigned_abs ](v: i64) -> (r: u64) ensures r as int == (if v < 0 { -(v as int) } else { v as int });

// `IntegerLiteral::from(i64)` as the real trait impl, so a call site that builds its literal that way is verified against [FROM-I64]
impl vstd::std_specs::convert::FromSpecImpl<i64> for IntegerLiteral {
    open spec fn obeys_from_spec() -> bool { true }
    // [FROM-I64] an i64 host value becomes an Int64 literal with the same value
    open spec fn from_spec(v: i64) -> Self { IntegerLiteral::Int64(v) }
}
impl core::convert::From<i64> for IntegerLiteral {
/*@fn lang/syntax/src/lib.rs :: impl From<i64> for IntegerLiteral :: fn from
   nopub
@*/
/*@end*/
}

// ---- A-float-with_type: the contract of FloatLiteral::{with_type, value} is PROVED by Kani (unit c05_kani, [FLIT-F64], [FLIT-F32],
// [FLIT-VALUE], all bit patterns) and assumed here (IEEE arithmetic is outside Verus) ----
pub uninterp spec fn f64_of(l: FloatLiteral) -> f64;           // the binary64 value a literal denotes (exact widening for binary32)
pub uninterp spec fn bits_of(v: f64) -> u64;
pub broadcast proof fn axiom_f64_literal_bits(b: u64)
    ensures #[trigger] bits_of(f64_of(FloatLiteral::Float64(b))) == b { admit(); }
impl FloatLiteral {
    #[verifier::external_body]
    pub fn value(self) -> (r: f64) ensures r == f64_of(self) { unimplemented!() }
    #[verifier::external_body]
    pub fn with_type(self, float_type: FloatType) -> (r: Option<FloatLiteral>)
        ensures
            float_type is Float64 ==> r == Some(FloatLiteral::Float64(bits_of(f64_of(self)))),
            float_type is Float32 ==> (r is Some ==> r.unwrap() is Float32),
    { unimplemented!() }
}

// ---- stand-ins for the checker's arena vocabulary (signature only) ----
pub mod ss {
    use vstd::prelude::*;
    pub struct ValueId { pub raw: u64 }
    pub struct TypeId { pub raw: u64 }
    pub enum Value { Lit(super::Literal) }
}
pub mod check {
    use vstd::prelude::*;
    // the two variants the literal arms construct (the real enum has many more)
    pub enum TyckError {
        IntegerLiteralOutOfRange { value: i128, integer_type: super::IntegerType },
        FloatLiteralOutOfRange { value: f64, float_type: super::FloatType },
    }
}
/*@type lang/statics/src/query.rs :: enum LiteralSynOutcome @*/
// `primitive_ty` is a closure of the real function (it looks the primitive's singleton type up); here: an uninterpreted function of the primitive
pub uninterp spec fn prim_ty(p: PrimitiveType) -> ss::TypeId;
#[verifier::external_body]
pub fn primitive_ty(p: PrimitiveType) -> (r: ss::TypeId) ensures r == prim_ty(p) { unimplemented!() }
#[verifier::external_body]
pub fn site_id() -> ss::ValueId { unimplemented!() }

// The wrappers' last line restates the function's last line (`Some(LiteralSynOutcome::Value { id, value: ss::Value::Lit(lit), ty })`);
// what is extracted and verified is the arm block between `let (lit, ty) =` and `;`.
pub fn syn_integer_site(i: &IntegerLiteral) -> (r: Option<LiteralSynOutcome>)
    ensures
        // [SYN-INT-RANGE] an unannotated integer literal is an Int64: it is rejected exactly when outside [-2^63, 2^63 - 1]
        (r matches Some(LiteralSynOutcome::Error(_))) <==> !(lo(IntegerType::Int64) <= mval(*i) <= hi(IntegerType::Int64)),
        // [SYN-INT-EXACT] when accepted: carried as Int64, exactly the literal's value, at the Int64 primitive type; never silently dropped
        lo(IntegerType::Int64) <= mval(*i) <= hi(IntegerType::Int64) ==>
            (r matches Some(LiteralSynOutcome::Value { value: ss::Value::Lit(Literal::Integer(l)), ty, .. })
                && mval(l) == mval(*i) && mtype(l) == Some(IntegerType::Int64) && ty == prim_ty(PrimitiveType::Integer(IntegerType::Int64))),
        // [SYN-INT-ERROR] the diagnostic names the exact value and the type it does not fit
        r matches Some(LiteralSynOutcome::Error(e)) ==>
            (e matches check::TyckError::IntegerLiteralOutOfRange { value, integer_type } && value as int == mval(*i) && integer_type is Int64),
{
    let (lit, ty) =
/*@arm lang/statics/src/query.rs :: fn literal_syn_judgment :: arm /Literal..Integer\(i\)/
@*/
    ;
    Some(LiteralSynOutcome::Value { id: site_id(), value: ss::Value::Lit(lit), ty })
}

pub fn syn_float_site(value: &FloatLiteral) -> (r: Option<LiteralSynOutcome>)
    ensures
        // [SYN-FLOAT] an unannotated float literal is a Float64: always accepted, bits preserved, at the Float64 primitive type
        r matches Some(LiteralSynOutcome::Value { value: ss::Value::Lit(Literal::Float(l)), ty, .. })
            && l == FloatLiteral::Float64(bits_of(f64_of(*value))) && ty == prim_ty(PrimitiveType::Float(FloatType::Float64)),
{
    let value = *value;
    let (lit, ty) =
/*@arm lang/statics/src/query.rs :: fn literal_syn_judgment :: arm /Literal..Float\(value\)/
@*/
    ;
    Some(LiteralSynOutcome::Value { id: site_id(), value: ss::Value::Lit(lit), ty })
}

// vacuity guards
pub proof fn reach_sites()
    ensures
        lo(IntegerType::Int64) <= mval(IntegerLiteral::Unresolved(0i128)) <= hi(IntegerType::Int64),
        !(lo(IntegerType::Int64) <= mval(IntegerLiteral::Unresolved(9223372036854775808i128)) <= hi(IntegerType::Int64)),
        !(lo(IntegerType::Int64) <= mval(IntegerLiteral::Unresolved(-9223372036854775809i128)) <= hi(IntegerType::Int64)),
{ }

} // verus!
fn main() {}
