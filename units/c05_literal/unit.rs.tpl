// Unit c05_literal — property C05: exact literal range checking, carriers, word bits.
// Real code under contract: IntegerLiteral::{new, with_type, from_value, value, integer_type, to_word_bits},
// From<i64> for IntegerLiteral, IntegerOperation::{arity,is_branch}, FloatOperation::{arity,is_branch},
// IntegerType::is_signed  (lang/syntax/src/lib.rs).
use vstd::prelude::*;
verus! {

// @@SHARED-TYPES-BEGIN
/*@type lang/syntax/src/lib.rs :: enum IntegerType @*/
/*@type lang/syntax/src/lib.rs :: enum IntegerLiteral @*/
// @@SHARED-TYPES-END
/*@type lang/syntax/src/lib.rs :: enum IntegerOperation @*/
/*@type lang/syntax/src/lib.rs :: enum FloatOperation @*/

// @@SHARED-SPEC-BEGIN
// ---- mathematical specification, written from the property statement (never from the code) ----
pub open spec fn bits(t: IntegerType) -> nat {
    match t {
        IntegerType::Int8 | IntegerType::UInt8 => 8,
        IntegerType::Int16 | IntegerType::UInt16 => 16,
        IntegerType::Int32 | IntegerType::UInt32 => 32,
        IntegerType::Int64 | IntegerType::UInt64 => 64,
    }
}
pub open spec fn signed(t: IntegerType) -> bool {
    t is Int8 || t is Int16 || t is Int32 || t is Int64
}
// range of the same-named Rust primitive
pub open spec fn lo(t: IntegerType) -> int {
    match t {
        IntegerType::Int8 => -128,
        IntegerType::Int16 => -32768,
        IntegerType::Int32 => -2147483648,
        IntegerType::Int64 => -9223372036854775808,
        _ => 0,
    }
}
pub open spec fn hi(t: IntegerType) -> int {
    match t {
        IntegerType::Int8 => 127,
        IntegerType::Int16 => 32767,
        IntegerType::Int32 => 2147483647,
        IntegerType::Int64 => 9223372036854775807,
        IntegerType::UInt8 => 255,
        IntegerType::UInt16 => 65535,
        IntegerType::UInt32 => 4294967295,
        IntegerType::UInt64 => 18446744073709551615,
    }
}
// the mathematical value a literal denotes, and the type its carrier selects
pub open spec fn mval(l: IntegerLiteral) -> int {
    match l {
        IntegerLiteral::Int8(v) => v as int,
        IntegerLiteral::Int16(v) => v as int,
        IntegerLiteral::Int32(v) => v as int,
        IntegerLiteral::Int64(v) => v as int,
        IntegerLiteral::UInt8(v) => v as int,
        IntegerLiteral::UInt16(v) => v as int,
        IntegerLiteral::UInt32(v) => v as int,
        IntegerLiteral::UInt64(v) => v as int,
        IntegerLiteral::Unresolved(v) => v as int,
    }
}
pub open spec fn mtype(l: IntegerLiteral) -> Option<IntegerType> {
    match l {
        IntegerLiteral::Int8(_) => Some(IntegerType::Int8),
        IntegerLiteral::Int16(_) => Some(IntegerType::Int16),
        IntegerLiteral::Int32(_) => Some(IntegerType::Int32),
        IntegerLiteral::Int64(_) => Some(IntegerType::Int64),
        IntegerLiteral::UInt8(_) => Some(IntegerType::UInt8),
        IntegerLiteral::UInt16(_) => Some(IntegerType::UInt16),
        IntegerLiteral::UInt32(_) => Some(IntegerType::UInt32),
        IntegerLiteral::UInt64(_) => Some(IntegerType::UInt64),
        IntegerLiteral::Unresolved(_) => None,
    }
}

// std conversions without a vstd specification; each is separately PROVED by a Kani full-domain harness
// (unit c05_kani_literal, harnesses from_u8_i128 .. from_u64_i128), so nothing is left assumed.
pub assume_specification[ <i128 as core::convert::From<u8>>::from ](v: u8) -> (r: i128) ensures r == v as int;
pub assume_specification[ <i128 as core::convert::From<u16>>::from ](v: u16) -> (r: i128) ensures r == v as int;
pub assume_specification[ <i128 as core::convert::From<u32>>::from ](v: u32) -> (r: i128) ensures r == v as int;
pub assume_specification[ <i128 as core::convert::From<u64>>::from ](v: u64) -> (r: i128) ensures r == v as int;

// @@SHARED-SPEC-END
impl IntegerType {
/*@fn lang/syntax/src/lib.rs :: impl IntegerType :: fn is_signed
@*/
    ensures
        // [SIGNED] the signed types are exactly Int8..Int64
        r == signed(self),
/*@end*/
}

impl IntegerLiteral {
// @@SHARED-IMPL-BEGIN
/*@fn lang/syntax/src/lib.rs :: impl IntegerLiteral :: fn new
@*/
    ensures
        // [NEW] a parsed literal carries its mathematical value and no type yet
        mval(r) == value as int && mtype(r) is None,
/*@end*/

/*@fn lang/syntax/src/lib.rs :: impl IntegerLiteral :: fn value
@*/
    ensures
        // [VALUE] the carrier value, exactly (sign- or zero-extended according to the carrier type)
        r as int == mval(self),
/*@end*/

/*@fn lang/syntax/src/lib.rs :: impl IntegerLiteral :: fn with_type
@*/
    ensures
        // [RANGE] accepted exactly when the mathematical value lies in the type's range
        r.is_some() <==> lo(integer_type) <= mval(self) <= hi(integer_type),
        // [EXACT] the run-time value is exactly the literal
        r.is_some() ==> mval(r.unwrap()) == mval(self),
        // [CARRIER] the result is carried by the requested type (no implicit conversion)
        r.is_some() ==> mtype(r.unwrap()) == Some(integer_type),
/*@end*/

// @@SHARED-IMPL-END
/*@fn lang/syntax/src/lib.rs :: impl IntegerLiteral :: fn from_value
@*/
    requires
        // [FROMVALUE-PRE] callers (interpreter results) stay within the representation
        lo(integer_type) <= value as int <= hi(integer_type),
    ensures
        // [FROMVALUE] exact value at the requested carrier; the `expect` is unreachable under the precondition
        mval(r) == value as int && mtype(r) == Some(integer_type),
/*@end*/

/*@fn lang/syntax/src/lib.rs :: impl IntegerLiteral :: fn integer_type
@*/
    ensures
        // [TYPEOF] tag/carrier agreement
        r == mtype(self),
/*@end*/

/*@fn lang/syntax/src/lib.rs :: impl IntegerLiteral :: fn to_word_bits
@*/
    requires
        // [WORD-PRE] lowering only sees resolved literals (panic exactly on Unresolved)
        mtype(self) is Some,
    ensures
        // [WORD-U] unsigned carriers are zero-extended (the signed, truncating-cast half is bit-level: proved by Kani,
        // unit c05_kani_literal harness to_word_bits_image, over the full domain)
        !signed(mtype(self).unwrap()) ==> r as int == mval(self),
/*@end*/

/*@fn lang/syntax/src/lib.rs :: impl From<i64> for IntegerLiteral :: fn from
   name from_i64
@*/
    ensures
        // [FROM-I64] an i64 host value becomes an Int64 literal with the same value
        mval(r) == value as int && mtype(r) == Some(IntegerType::Int64),
/*@end*/
}

impl IntegerOperation {
/*@fn lang/syntax/src/lib.rs :: impl IntegerOperation :: fn arity
@*/
    ensures
        // [IOP-ARITY] arithmetic is binary, comparisons take two operands and two continuations, to_string is unary
        r == (if self is Add || self is Sub || self is Mul || self is Div || self is Mod { 2usize }
              else if self is Eq || self is Lt || self is Gt { 4usize } else { 1usize }),
/*@end*/
/*@fn lang/syntax/src/lib.rs :: impl IntegerOperation :: fn is_branch
@*/
    ensures
        // [IOP-BRANCH] exactly the comparisons select a continuation
        r == (self is Eq || self is Lt || self is Gt),
/*@end*/
}

impl FloatOperation {
/*@fn lang/syntax/src/lib.rs :: impl FloatOperation :: fn arity
@*/
    ensures
        // [FOP-ARITY]
        r == (if self is Add || self is Sub || self is Mul || self is Div { 2usize }
              else if self is Eq || self is Lt || self is Gt { 4usize } else { 1usize }),
/*@end*/
/*@fn lang/syntax/src/lib.rs :: impl FloatOperation :: fn is_branch
@*/
    ensures
        // [FOP-BRANCH]
        r == (self is Eq || self is Lt || self is Gt),
/*@end*/
}

// ---- vacuity guards: preconditions are satisfiable, specs are not degenerate ----
pub proof fn reach_from_value() ensures lo(IntegerType::Int8) <= -128 <= hi(IntegerType::Int8), lo(IntegerType::UInt64) <= 18446744073709551615 <= hi(IntegerType::UInt64) {}
pub proof fn reach_word() ensures mtype(IntegerLiteral::Int8(-1i8)) is Some {}
pub proof fn spec_sanity()
    ensures
        hi(IntegerType::Int8) + 1 == 128, lo(IntegerType::UInt8) - 1 == -1,
        hi(IntegerType::Int64) + 1 == 0x8000_0000_0000_0000, hi(IntegerType::UInt64) == 0xffff_ffff_ffff_ffff,
{ }

} // verus!
fn main() {}
