// Unit c06_host — property C06: "closed handles stay closed", issued handles are fresh.
// Real code under contract: HostRuntime::{new, open_reader, create_writer, append_writer, open_writer, close_reader, close_writer},
// HostRuntime::{reader, writer}, HostIoError::closed, HostIoErrorKind::from_error (lang/dynamics/src/host.rs), copied byte for byte.
// The std file-system API the code calls is replaced by SIGNATURE-ONLY stand-ins of the same names (no behaviour: every
// result is unconstrained), so the extracted text compiles verbatim; this is assumption A-std-fs.
#![feature(allocator_api)]
use vstd::prelude::*;
use std::collections::HashMap;
verus! {

// ---- A-std-fs: signature-only stand-ins for std::fs / std::io (external_body, results unconstrained) ----
pub mod io {
    use vstd::prelude::*;
    pub enum ErrorKind { NotFound, PermissionDenied, AlreadyExists, InvalidInput, InvalidData, BrokenPipe, NotConnected, Other }
    #[verifier::external_body] pub struct Error { _p: () }
    pub type Result<T> = core::result::Result<T, Error>;
    impl Error {
        #[verifier::external_body] pub fn new(kind: ErrorKind, msg: &str) -> (r: Error) ensures kind_of(r) == kind, { unimplemented!() }
        #[verifier::external_body] pub fn kind(&self) -> (r: ErrorKind) ensures r == kind_of(*self), { unimplemented!() }
    }
    // ghost: the category an error value carries (what `Error::new` was given, what `Error::kind` reports)
    pub uninterp spec fn kind_of(e: Error) -> ErrorKind;
    #[verifier::external_body] #[verifier::reject_recursive_types(R)] pub struct BufReader<R> { _p: core::marker::PhantomData<R> }
    impl<R> BufReader<R> {
        #[verifier::external_body] pub fn new(inner: R) -> (r: BufReader<R>) { unimplemented!() }
    }
}
pub use io::BufReader;
#[verifier::external_body] pub struct File { _p: () }
impl File {
    #[verifier::external_body] pub fn open(path: &str) -> (r: io::Result<File>) { unimplemented!() }
    #[verifier::external_body] pub fn flush(&mut self) -> (r: io::Result<()>) { unimplemented!() }
}
pub struct OpenOptions { pub w: bool, pub c: bool, pub t: bool, pub a: bool }
impl OpenOptions {
    // same receiver shapes as std (`&mut self -> &mut Self`, `open(&self, ..)`), so both the builder chain and a named local compile
    pub fn new() -> (r: OpenOptions) ensures r == (OpenOptions { w: false, c: false, t: false, a: false }) { OpenOptions { w: false, c: false, t: false, a: false } }
    pub fn write(&mut self, v: bool) -> (r: &mut OpenOptions)
        ensures *r == (OpenOptions { w: v, ..*old(self) }), *final(r) == *final(self),
    { self.w = v; self }
    pub fn create(&mut self, v: bool) -> (r: &mut OpenOptions)
        ensures *r == (OpenOptions { c: v, ..*old(self) }), *final(r) == *final(self),
    { self.c = v; self }
    pub fn truncate(&mut self, v: bool) -> (r: &mut OpenOptions)
        ensures *r == (OpenOptions { t: v, ..*old(self) }), *final(r) == *final(self),
    { self.t = v; self }
    pub fn append(&mut self, v: bool) -> (r: &mut OpenOptions)
        ensures *r == (OpenOptions { a: v, ..*old(self) }), *final(r) == *final(self),
    { self.a = v; self }
    #[verifier::external_body] pub fn open(&self, path: &str) -> (r: io::Result<File>)
        ensures r is Ok ==> opened_with(r->Ok_0) == *self,
    { unimplemented!() }
}
// ghost: the options a file handle was opened with (what the operating system was asked for)
pub uninterp spec fn opened_with(f: File) -> OpenOptions;

/*@type lang/dynamics/src/host.rs :: struct ReaderHandle
   derive Clone, Copy, Debug, Hash, PartialEq, Eq, Structural
@*/
/*@type lang/dynamics/src/host.rs :: struct WriterHandle
   derive Clone, Copy, Debug, Hash, PartialEq, Eq, Structural
@*/
impl ReaderHandle {
/*@type lang/dynamics/src/host.rs :: impl ReaderHandle :: const STDIN @*/
}
impl WriterHandle {
/*@type lang/dynamics/src/host.rs :: impl WriterHandle :: const STDOUT @*/
/*@type lang/dynamics/src/host.rs :: impl WriterHandle :: const STDERR @*/
}
/*@type lang/dynamics/src/host.rs :: struct HostRuntime @*/
/*@type lang/dynamics/src/host.rs :: struct HostIoError @*/
impl HostIoError {
/*@fn lang/dynamics/src/host.rs :: impl HostIoError :: fn closed
@*/
    ensures
        // [CLOSED-KIND] the "capability is closed" error carries the category that `from_error` maps to `Closed`
        io::kind_of(r) is NotConnected,
/*@end*/
}
/*@type lang/dynamics/src/host.rs :: enum HostIoErrorKind
   derive Clone, Copy, Debug, PartialEq, Eq, Structural
@*/
impl HostIoErrorKind {
/*@fn lang/dynamics/src/host.rs :: impl HostIoErrorKind :: fn from_error
@*/
    ensures
        // [KIND-TABLE] the stable category table; in particular only a closed capability is reported as `Closed`
        r is Closed <==> io::kind_of(*error) is NotConnected,
        r is NotFound <==> io::kind_of(*error) is NotFound,
        r is PermissionDenied <==> io::kind_of(*error) is PermissionDenied,
        r is AlreadyExists <==> io::kind_of(*error) is AlreadyExists,
        r is InvalidInput <==> io::kind_of(*error) is InvalidInput,
        r is InvalidData <==> io::kind_of(*error) is InvalidData,
        r is BrokenPipe <==> io::kind_of(*error) is BrokenPipe,
        r is Other <==> io::kind_of(*error) is Other,
/*@end*/
}

// A-std-get_mut: HashMap::get_mut finds exactly the present keys, hands out the stored value, and never changes the key set
pub assume_specification<'a, K, V, S, A, Q> [std::collections::HashMap::<K, V, S, A>::get_mut] (m: &'a mut std::collections::HashMap<K, V, S, A>, k: &Q) -> (r: std::option::Option<&'a mut V>)
    where
        A: std::alloc::Allocator,
        K: std::cmp::Eq + std::hash::Hash + std::borrow::Borrow<Q>,
        Q: std::marker::MetaSized + std::hash::Hash + std::cmp::Eq + ?Sized,
        S: std::hash::BuildHasher,
    ensures
        r.is_some() <==> vstd::std_specs::hash::contains_borrowed_key(old(m)@, k),
        final(m)@.dom() == old(m)@.dom(),
        r matches Some(v) ==> vstd::std_specs::hash::maps_borrowed_key_to_value(old(m)@, k, *v),
        r is None ==> final(m)@ == old(m)@,
;

// A-key-model: derived Hash/Eq on a `usize` newtype is a lawful hash-map key (vstd ships this axiom for primitive keys only)
pub mod keys {
    use vstd::prelude::*;
    use super::{ReaderHandle, WriterHandle};
    pub broadcast proof fn axiom_reader_key()
        ensures #[trigger] vstd::std_specs::hash::obeys_key_model::<ReaderHandle>() { admit(); }
    pub broadcast proof fn axiom_writer_key()
        ensures #[trigger] vstd::std_specs::hash::obeys_key_model::<WriterHandle>() { admit(); }
}
broadcast use {keys::axiom_reader_key, keys::axiom_writer_key};

impl HostRuntime {
    // representation invariant: every open handle was issued (below the counter) and is not a standard stream
    pub open spec fn wf(&self) -> bool {
        &&& self.next_reader >= 1
        &&& self.next_writer >= 2
        &&& forall|h: ReaderHandle| self.readers@.contains_key(h) ==> 1 <= h.0 < self.next_reader
        &&& forall|h: WriterHandle| self.writers@.contains_key(h) ==> 2 <= h.0 < self.next_writer
    }
    // a handle that has been issued and is not open: i.e. closed
    pub open spec fn reader_closed(&self, h: ReaderHandle) -> bool { 1 <= h.0 < self.next_reader && !self.readers@.contains_key(h) }
    pub open spec fn writer_closed(&self, h: WriterHandle) -> bool { 2 <= h.0 < self.next_writer && !self.writers@.contains_key(h) }

/*@fn lang/dynamics/src/host.rs :: impl HostRuntime :: fn new
@*/
    ensures
        // [NEW] nothing is open; standard streams are never in the table
        r.wf() && r.readers@.len() == 0 && r.writers@.len() == 0,
/*@end*/

/*@fn lang/dynamics/src/host.rs :: impl HostRuntime :: fn open_reader
@*/
    requires
        old(self).wf(),
        // [OPEN-PRE] fewer than 2^64 opens (machine arithmetic: the counter is not mathematical)
        old(self).next_reader < usize::MAX,
    ensures
        // [OPEN-WF]
        final(self).wf(),
        // [OPEN-FRESH] a successful open returns a handle that was never issued before, and opens exactly it
        r is Ok ==> r->Ok_0.0 == old(self).next_reader && !old(self).readers@.contains_key(r->Ok_0)
            && final(self).readers@.dom() == old(self).readers@.dom().insert(r->Ok_0),
        // [OPEN-CLOSED-STAY] closed handles stay closed, whether or not the open succeeds
        forall|h: ReaderHandle| old(self).reader_closed(h) ==> final(self).reader_closed(h),
        // [OPEN-FRAME] a failed open changes nothing; writers are never touched
        r is Err ==> final(self).readers@.dom() == old(self).readers@.dom() && final(self).next_reader == old(self).next_reader,
        final(self).writers@ == old(self).writers@ && final(self).next_writer == old(self).next_writer,
/*@end*/

/*@fn lang/dynamics/src/host.rs :: impl HostRuntime :: fn open_writer
@*/
    requires
        old(self).wf(),
        // [OPENW-PRE]
        old(self).next_writer < usize::MAX,
    ensures
        // [OPENW-WF]
        final(self).wf(),
        // [OPENW-FRESH]
        r is Ok ==> r->Ok_0.0 == old(self).next_writer && !old(self).writers@.contains_key(r->Ok_0)
            && final(self).writers@.dom() == old(self).writers@.dom().insert(r->Ok_0),
        // [OPENW-CLOSED-STAY]
        forall|h: WriterHandle| old(self).writer_closed(h) ==> final(self).writer_closed(h),
        // [OPENW-MODE] the file is opened for writing, created if missing, and TRUNCATED unless appending (then appended to)
        r is Ok ==> opened_with(final(self).writers@[r->Ok_0]) == (OpenOptions { w: true, c: true, t: !append, a: append }),
        // [OPENW-FRAME]
        r is Err ==> final(self).writers@.dom() == old(self).writers@.dom() && final(self).next_writer == old(self).next_writer,
        final(self).readers@ == old(self).readers@ && final(self).next_reader == old(self).next_reader,
/*@end*/

/*@fn lang/dynamics/src/host.rs :: impl HostRuntime :: fn create_writer
@*/
    requires old(self).wf(), old(self).next_writer < usize::MAX,
    ensures
        // [CREATE] same contract as open_writer; `create` means create-or-truncate
        final(self).wf(),
        r is Ok ==> opened_with(final(self).writers@[r->Ok_0]) == (OpenOptions { w: true, c: true, t: true, a: false }),
        r is Ok ==> r->Ok_0.0 == old(self).next_writer && final(self).writers@.dom() == old(self).writers@.dom().insert(r->Ok_0),
        forall|h: WriterHandle| old(self).writer_closed(h) ==> final(self).writer_closed(h),
/*@end*/

/*@fn lang/dynamics/src/host.rs :: impl HostRuntime :: fn append_writer
@*/
    requires old(self).wf(), old(self).next_writer < usize::MAX,
    ensures
        // [APPEND] same contract as open_writer; `append` never truncates
        final(self).wf(),
        r is Ok ==> opened_with(final(self).writers@[r->Ok_0]) == (OpenOptions { w: true, c: true, t: false, a: true }),
        r is Ok ==> r->Ok_0.0 == old(self).next_writer && final(self).writers@.dom() == old(self).writers@.dom().insert(r->Ok_0),
        forall|h: WriterHandle| old(self).writer_closed(h) ==> final(self).writer_closed(h),
/*@end*/

/*@fn lang/dynamics/src/host.rs :: impl HostRuntime :: fn reader
@*/
    requires old(self).wf(),
    ensures
        // [LOOKUP-RESULT] exactly the open handles are served; a closed or never-issued handle is an error
        r is Ok <==> old(self).readers@.contains_key(handle),
        // [LOOKUP-SAME] ... and what is served is the resource opened under THAT handle, not another one's
        r is Ok ==> *r->Ok_0 == old(self).readers@[handle],
        // [LOOKUP-CLOSED-KIND] the error is the "closed" one
        r is Err ==> io::kind_of(r->Err_0) is NotConnected,
        // [LOOKUP-FRAME] a lookup never opens, closes or reissues anything
        final(self).readers@.dom() == old(self).readers@.dom(),
        final(self).next_reader == old(self).next_reader && final(self).writers@ == old(self).writers@ && final(self).next_writer == old(self).next_writer,
/*@end*/

/*@fn lang/dynamics/src/host.rs :: impl HostRuntime :: fn writer
@*/
    requires old(self).wf(),
    ensures
        // [LOOKUPW-RESULT]
        r is Ok <==> old(self).writers@.contains_key(handle),
        // [LOOKUPW-SAME]
        r is Ok ==> *r->Ok_0 == old(self).writers@[handle],
        // [LOOKUPW-CLOSED-KIND]
        r is Err ==> io::kind_of(r->Err_0) is NotConnected,
        // [LOOKUPW-FRAME]
        final(self).writers@.dom() == old(self).writers@.dom(),
        final(self).next_writer == old(self).next_writer && final(self).readers@ == old(self).readers@ && final(self).next_reader == old(self).next_reader,
/*@end*/

/*@fn lang/dynamics/src/host.rs :: impl HostRuntime :: fn close_reader
@*/
    requires old(self).wf(),
    ensures
        // [CLOSE-WF]
        final(self).wf(),
        // [CLOSE-RESULT] closing succeeds exactly on standard input and on open handles; a closed handle reports an error
        r is Ok <==> (handle.0 == 0 || old(self).readers@.contains_key(handle)),
        // [CLOSE-CLOSED-KIND]
        r is Err ==> io::kind_of(r->Err_0) is NotConnected,
        // [CLOSE-EXACT] exactly that handle is removed, nothing is ever (re)opened by a close
        final(self).readers@.dom() =~= old(self).readers@.dom().remove(handle),
        // [CLOSE-CLOSED-STAY]
        forall|h: ReaderHandle| old(self).reader_closed(h) ==> final(self).reader_closed(h),
        // [CLOSE-FRAME]
        final(self).next_reader == old(self).next_reader && final(self).writers@ == old(self).writers@ && final(self).next_writer == old(self).next_writer,
/*@end*/

/*@fn lang/dynamics/src/host.rs :: impl HostRuntime :: fn close_writer
@*/
    requires old(self).wf(),
    ensures
        // [CLOSEW-WF]
        final(self).wf(),
        // [CLOSEW-RESULT] a closed (or never issued) non-standard handle reports an error
        !(handle.0 == 0 || handle.0 == 1 || old(self).writers@.contains_key(handle)) ==> r is Err,
        // [CLOSEW-STD] the standard streams are never closed: the request succeeds and changes nothing
        (handle.0 == 0 || handle.0 == 1) ==> r is Ok && final(self).writers@ == old(self).writers@,
        // [CLOSEW-CLOSED-KIND] closing a closed handle reports the "closed" category (an open one may report what flush reports)
        !(handle.0 == 0 || handle.0 == 1 || old(self).writers@.contains_key(handle)) ==> r is Err && io::kind_of(r->Err_0) is NotConnected,
        // [CLOSEW-EXACT]
        final(self).writers@.dom() =~= old(self).writers@.dom().remove(handle),
        // [CLOSEW-CLOSED-STAY]
        forall|h: WriterHandle| old(self).writer_closed(h) ==> final(self).writer_closed(h),
        // [CLOSEW-FRAME]
        final(self).next_writer == old(self).next_writer && final(self).readers@ == old(self).readers@ && final(self).next_reader == old(self).next_reader,
/*@end*/
}

// vacuity guard: the precondition `wf` is satisfiable (the state HostRuntime::new produces)
pub proof fn reach_wf(h: HostRuntime)
    requires h.next_reader == 1, h.next_writer == 2, h.readers@ == Map::<ReaderHandle, BufReader<File>>::empty(), h.writers@ == Map::<WriterHandle, File>::empty(),
    ensures h.wf(),
{ }

} // verus!
fn main() {}
