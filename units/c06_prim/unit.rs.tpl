// Unit c06_prim — property C06 ("consumes exactly its declared arguments"): the interpreter's `Prim` arm
// (lang/dynamics/src/eval.rs, `impl Eval for Computation :: fn step`, arm `Computation::Prim(Prim { arity, role })`), copied verbatim
// (rule R10), pops exactly `arity` application frames and hands their payloads to the host operation in application order.
// Everything around it is a SIGNATURE-ONLY stand-in: the stack (im::Vector) is a ghost sequence, `BuiltinRuntime::invoke` is an
// uninterpreted function of (role, arguments), values and computations are opaque.
use vstd::prelude::*;
verus! {

// ---- opaque syntax / values ----
#[verifier::external_body] pub struct SemValue { _p: () }
#[verifier::external_body] pub struct Computation { _p: () }
#[verifier::external_body] pub struct RcCompu { _p: () }
#[verifier::external_body] pub struct RcVPat { _p: () }
#[verifier::external_body] pub struct DtorName { _p: () }
#[verifier::external_body] #[verifier::reject_recursive_types(T)] pub struct Env<T> { _p: core::marker::PhantomData<T> }
#[verifier::external_body] pub struct BuiltinValueRole { _p: () }
#[verifier::external_body] pub struct HostRuntime { _p: () }
#[verifier::external_body] pub struct InputStream { _p: () }
#[verifier::external_body] pub struct OutputStream { _p: () }
#[verifier::external_body] pub struct ArgVector { _p: () }

/*@type lang/dynamics/src/syntax.rs :: enum SemCompu @*/
/*@type lang/dynamics/src/syntax.rs :: enum ProgKont @*/
/*@type lang/dynamics/src/eval.rs :: enum Step @*/

// ---- the machine stack (im::Vector<SemCompu> in the real Runtime): a ghost sequence whose back is the top ----
pub struct Stack { pub frames: Vec<SemCompu> }
impl Stack {
    pub fn pop_back(&mut self) -> (r: Option<SemCompu>)
        ensures
            old(self).frames@.len() == 0 ==> r is None && final(self).frames@ == old(self).frames@,
            old(self).frames@.len() > 0 ==> r == Some(old(self).frames@.last()) && final(self).frames@ == old(self).frames@.drop_last(),
    { self.frames.pop() }
}
// stand-in for the fields of `Runtime` the arm touches (the real input/output are `&mut dyn` streams)
pub struct Runtime { pub input: InputStream, pub output: OutputStream, pub args: ArgVector, pub host: HostRuntime, pub stack: Stack }

// ---- the host dispatch: an uninterpreted function of the role and the argument vector (I/O state is not modelled) ----
pub uninterp spec fn invoke_result(role: BuiltinValueRole, args: Seq<SemValue>) -> Result<Computation, i32>;
pub mod builtin {
    use super::*;
    pub struct BuiltinRuntime;
    impl BuiltinRuntime {
        #[verifier::external_body]
        pub fn invoke(role: BuiltinValueRole, args: Vec<SemValue>, input: InputStream, output: OutputStream, argv: ArgVector, host: &mut HostRuntime) -> (r: Result<Computation, i32>)
            ensures r == invoke_result(role, args@),
        { unimplemented!() }
    }
}

// the payloads of the top `n` frames, top first (= application order: the innermost application pushed last)
pub open spec fn top_payloads(frames: Seq<SemCompu>, n: int) -> Seq<SemValue>
    recommends 0 <= n <= frames.len()
{
    Seq::new(n as nat, |k: int| frames[frames.len() - 1 - k]->App_0)
}
pub open spec fn top_are_apps(frames: Seq<SemCompu>, n: int) -> bool {
    &&& 0 <= n <= frames.len()
    &&& forall|k: int| 0 <= k < n ==> (#[trigger] frames[frames.len() - 1 - k]) is App
}

pub fn prim_step(arity: u64, role: BuiltinValueRole, runtime: Runtime) -> (r: (Step<Computation, ProgKont>, Stack))
    requires
        // [PRIM-PRE] the type-safety invariant of the machine (property C01, assumed here): a primitive of arity n is entered
        // with n application frames on top of the stack
        top_are_apps(runtime.stack.frames@, arity as int),
    ensures
        // [PRIM-POPS] exactly `arity` frames are popped, nothing below them is touched
        r.1.frames@ == runtime.stack.frames@.subrange(0, runtime.stack.frames@.len() - arity as int),
        // [PRIM-ARGS] the host operation receives exactly those payloads, in application order, and its outcome is the step's:
        // a computation to continue with, or the exit status
        r.0 == (match invoke_result(role, top_payloads(runtime.stack.frames@, arity as int)) {
            Ok(e) => Step::<Computation, ProgKont>::Step(e),
            Err(code) => Step::<Computation, ProgKont>::Done(ProgKont::ExitCode(code)),
        }),
{
    let mut runtime = runtime;
    let ghost frames0 = runtime.stack.frames@;
    let step =
/*@arm lang/dynamics/src/eval.rs :: impl Eval for Computation :: fn step :: arm /Prim\(Prim \{/
   name_loop_var 0 k
   loop 0: invariant
       top_are_apps(frames0, arity as int),
       // [PRIM-inductive] after k pops: the stack is the original minus its top k frames, the collected arguments are their payloads
       runtime.stack.frames@ == frames0.subrange(0, frames0.len() - k as int),
       args@ == top_payloads(frames0, k as int),
   proof /let Some\(SemCompu::App\(arg\)\) = runtime\.stack\.pop_back\(\)/: proof {
       assert(runtime.stack.frames@.last() == frames0[frames0.len() - 1 - k as int]);
       assert(frames0[frames0.len() - 1 - k as int] is App);
   }
@*/
    ;
    (step, runtime.stack)
}

// vacuity guard: the precondition is satisfiable
pub proof fn reach_prim(a: SemCompu, b: SemCompu)
    requires a is App, b is App,
    ensures top_are_apps(seq![a, b], 2), top_are_apps(seq![a, b], 0),
{ }

} // verus!
fn main() {}
