// Unit c05_arith — property C05: the interpreter's integer arithmetic macro, UNBOUNDED proof of add/sub/mul at all eight
// carriers against the mathematical definition of wrap-around (closes the gap Kani leaves at 64-bit multiplication, where its
// oracle is the same-named primitive). Real code: macro `integer_arithmetic_result!` (lang/dynamics/src/impls.rs), instantiated
// verbatim in the shape of a dispatch arm; `Literal`, `IntegerLiteral`, `IntegerOperation` (lang/syntax/src/lib.rs).
use vstd::prelude::*;
use std::sync::Arc;
verus! {

/*@type lang/syntax/src/lib.rs :: enum IntegerOperation @*/
/*@type lang/syntax/src/lib.rs :: enum IntegerLiteral @*/
/*@type lang/syntax/src/lib.rs :: enum FloatLiteral @*/
#[verifier::external_body]
pub struct Utf8String { _p: () }     // opaque here (string literals play no role in this unit)
/*@type lang/syntax/src/lib.rs :: enum Literal @*/

/*@macro lang/dynamics/src/impls.rs :: macro integer_arithmetic_result @*/

// core's blanket `impl<T> From<T> for T { fn from(t: T) -> T { t } }` (the macro ends in `.into()`; in a dispatch arm the
// target is SemValue, here it is Literal itself)
pub assume_specification<T>[ <T as core::convert::From<T>>::from ](t: T) -> (r: T) ensures r == t;

// mathematical wrap-around into [lo, lo + m): written from the property ("wrapping add, sub, mul")
pub open spec fn wrap(lo: int, m: int, x: int) -> int { ((x - lo) % m) + lo }

// Div / Mod: std's wrapping_div / wrapping_rem have no vstd specification; they are only required to be called with a
// non-zero divisor here (their values are Kani's: unit c05_kani ARITH-*-divrem*)
pub assume_specification[ i8::wrapping_div ](a: i8, b: i8) -> (r: i8) requires b != 0;
pub assume_specification[ i8::wrapping_rem ](a: i8, b: i8) -> (r: i8) requires b != 0;
pub assume_specification[ i16::wrapping_div ](a: i16, b: i16) -> (r: i16) requires b != 0;
pub assume_specification[ i16::wrapping_rem ](a: i16, b: i16) -> (r: i16) requires b != 0;
pub assume_specification[ i32::wrapping_div ](a: i32, b: i32) -> (r: i32) requires b != 0;
pub assume_specification[ i32::wrapping_rem ](a: i32, b: i32) -> (r: i32) requires b != 0;
pub assume_specification[ i64::wrapping_div ](a: i64, b: i64) -> (r: i64) requires b != 0;
pub assume_specification[ i64::wrapping_rem ](a: i64, b: i64) -> (r: i64) requires b != 0;
pub assume_specification[ u8::wrapping_div ](a: u8, b: u8) -> (r: u8) requires b != 0;
pub assume_specification[ u8::wrapping_rem ](a: u8, b: u8) -> (r: u8) requires b != 0;
pub assume_specification[ u16::wrapping_div ](a: u16, b: u16) -> (r: u16) requires b != 0;
pub assume_specification[ u16::wrapping_rem ](a: u16, b: u16) -> (r: u16) requires b != 0;
pub assume_specification[ u32::wrapping_div ](a: u32, b: u32) -> (r: u32) requires b != 0;
pub assume_specification[ u32::wrapping_rem ](a: u32, b: u32) -> (r: u32) requires b != 0;
pub assume_specification[ u64::wrapping_div ](a: u64, b: u64) -> (r: u64) requires b != 0;
pub assume_specification[ u64::wrapping_rem ](a: u64, b: u64) -> (r: u64) requires b != 0;


pub open spec fn is_addsubmul(op: IntegerOperation) -> bool { op is Add || op is Sub || op is Mul }
pub open spec fn math(op: IntegerOperation, a: int, b: int) -> int {
    if op is Add { a + b } else if op is Sub { a - b } else { a * b }
}

// the macro exactly as the Int8 arm of `integer_arithmetic` uses it: `first`/`second` are references to the carrier payloads
pub fn kernel_i8(first: &i8, second: &i8, operation: IntegerOperation) -> (r: Literal)
    requires
        // [KERNEL-PRE-i8] arithmetic operations only (comparisons and to_string are dispatched elsewhere: `unreachable!`); the one
        // defined trap, division or remainder by zero, is excluded
        is_addsubmul(operation) || ((operation is Div || operation is Mod) && *second != 0),
    ensures
        // [WRAP-i8] add/sub/mul: the mathematical result reduced modulo 2^w into Int8's range, carried by Int8 (no conversion)
        is_addsubmul(operation) ==> r == Literal::Integer(IntegerLiteral::Int8(wrap(-0x80, 0x100, math(operation, *first as int, *second as int)) as i8)),
        // [CARRIER-i8] div/mod results are carried by Int8 as well
        r is Integer && r->Integer_0 is Int8,
{
    integer_arithmetic_result!(Int8, first, second, operation)
}

// the macro exactly as the Int16 arm of `integer_arithmetic` uses it: `first`/`second` are references to the carrier payloads
pub fn kernel_i16(first: &i16, second: &i16, operation: IntegerOperation) -> (r: Literal)
    requires
        // [KERNEL-PRE-i16] arithmetic operations only (comparisons and to_string are dispatched elsewhere: `unreachable!`); the one
        // defined trap, division or remainder by zero, is excluded
        is_addsubmul(operation) || ((operation is Div || operation is Mod) && *second != 0),
    ensures
        // [WRAP-i16] add/sub/mul: the mathematical result reduced modulo 2^w into Int16's range, carried by Int16 (no conversion)
        is_addsubmul(operation) ==> r == Literal::Integer(IntegerLiteral::Int16(wrap(-0x8000, 0x1_0000, math(operation, *first as int, *second as int)) as i16)),
        // [CARRIER-i16] div/mod results are carried by Int16 as well
        r is Integer && r->Integer_0 is Int16,
{
    integer_arithmetic_result!(Int16, first, second, operation)
}

// the macro exactly as the Int32 arm of `integer_arithmetic` uses it: `first`/`second` are references to the carrier payloads
pub fn kernel_i32(first: &i32, second: &i32, operation: IntegerOperation) -> (r: Literal)
    requires
        // [KERNEL-PRE-i32] arithmetic operations only (comparisons and to_string are dispatched elsewhere: `unreachable!`); the one
        // defined trap, division or remainder by zero, is excluded
        is_addsubmul(operation) || ((operation is Div || operation is Mod) && *second != 0),
    ensures
        // [WRAP-i32] add/sub/mul: the mathematical result reduced modulo 2^w into Int32's range, carried by Int32 (no conversion)
        is_addsubmul(operation) ==> r == Literal::Integer(IntegerLiteral::Int32(wrap(-0x8000_0000, 0x1_0000_0000, math(operation, *first as int, *second as int)) as i32)),
        // [CARRIER-i32] div/mod results are carried by Int32 as well
        r is Integer && r->Integer_0 is Int32,
{
    integer_arithmetic_result!(Int32, first, second, operation)
}

// the macro exactly as the Int64 arm of `integer_arithmetic` uses it: `first`/`second` are references to the carrier payloads
pub fn kernel_i64(first: &i64, second: &i64, operation: IntegerOperation) -> (r: Literal)
    requires
        // [KERNEL-PRE-i64] arithmetic operations only (comparisons and to_string are dispatched elsewhere: `unreachable!`); the one
        // defined trap, division or remainder by zero, is excluded
        is_addsubmul(operation) || ((operation is Div || operation is Mod) && *second != 0),
    ensures
        // [WRAP-i64] add/sub/mul: the mathematical result reduced modulo 2^w into Int64's range, carried by Int64 (no conversion)
        is_addsubmul(operation) ==> r == Literal::Integer(IntegerLiteral::Int64(wrap(-0x8000_0000_0000_0000, 0x1_0000_0000_0000_0000, math(operation, *first as int, *second as int)) as i64)),
        // [CARRIER-i64] div/mod results are carried by Int64 as well
        r is Integer && r->Integer_0 is Int64,
{
    integer_arithmetic_result!(Int64, first, second, operation)
}

// the macro exactly as the UInt8 arm of `integer_arithmetic` uses it: `first`/`second` are references to the carrier payloads
pub fn kernel_u8(first: &u8, second: &u8, operation: IntegerOperation) -> (r: Literal)
    requires
        // [KERNEL-PRE-u8] arithmetic operations only (comparisons and to_string are dispatched elsewhere: `unreachable!`); the one
        // defined trap, division or remainder by zero, is excluded
        is_addsubmul(operation) || ((operation is Div || operation is Mod) && *second != 0),
    ensures
        // [WRAP-u8] add/sub/mul: the mathematical result reduced modulo 2^w into UInt8's range, carried by UInt8 (no conversion)
        is_addsubmul(operation) ==> r == Literal::Integer(IntegerLiteral::UInt8(wrap(0, 0x100, math(operation, *first as int, *second as int)) as u8)),
        // [CARRIER-u8] div/mod results are carried by UInt8 as well
        r is Integer && r->Integer_0 is UInt8,
{
    integer_arithmetic_result!(UInt8, first, second, operation)
}

// the macro exactly as the UInt16 arm of `integer_arithmetic` uses it: `first`/`second` are references to the carrier payloads
pub fn kernel_u16(first: &u16, second: &u16, operation: IntegerOperation) -> (r: Literal)
    requires
        // [KERNEL-PRE-u16] arithmetic operations only (comparisons and to_string are dispatched elsewhere: `unreachable!`); the one
        // defined trap, division or remainder by zero, is excluded
        is_addsubmul(operation) || ((operation is Div || operation is Mod) && *second != 0),
    ensures
        // [WRAP-u16] add/sub/mul: the mathematical result reduced modulo 2^w into UInt16's range, carried by UInt16 (no conversion)
        is_addsubmul(operation) ==> r == Literal::Integer(IntegerLiteral::UInt16(wrap(0, 0x1_0000, math(operation, *first as int, *second as int)) as u16)),
        // [CARRIER-u16] div/mod results are carried by UInt16 as well
        r is Integer && r->Integer_0 is UInt16,
{
    integer_arithmetic_result!(UInt16, first, second, operation)
}

// the macro exactly as the UInt32 arm of `integer_arithmetic` uses it: `first`/`second` are references to the carrier payloads
pub fn kernel_u32(first: &u32, second: &u32, operation: IntegerOperation) -> (r: Literal)
    requires
        // [KERNEL-PRE-u32] arithmetic operations only (comparisons and to_string are dispatched elsewhere: `unreachable!`); the one
        // defined trap, division or remainder by zero, is excluded
        is_addsubmul(operation) || ((operation is Div || operation is Mod) && *second != 0),
    ensures
        // [WRAP-u32] add/sub/mul: the mathematical result reduced modulo 2^w into UInt32's range, carried by UInt32 (no conversion)
        is_addsubmul(operation) ==> r == Literal::Integer(IntegerLiteral::UInt32(wrap(0, 0x1_0000_0000, math(operation, *first as int, *second as int)) as u32)),
        // [CARRIER-u32] div/mod results are carried by UInt32 as well
        r is Integer && r->Integer_0 is UInt32,
{
    integer_arithmetic_result!(UInt32, first, second, operation)
}

// the macro exactly as the UInt64 arm of `integer_arithmetic` uses it: `first`/`second` are references to the carrier payloads
pub fn kernel_u64(first: &u64, second: &u64, operation: IntegerOperation) -> (r: Literal)
    requires
        // [KERNEL-PRE-u64] arithmetic operations only (comparisons and to_string are dispatched elsewhere: `unreachable!`); the one
        // defined trap, division or remainder by zero, is excluded
        is_addsubmul(operation) || ((operation is Div || operation is Mod) && *second != 0),
    ensures
        // [WRAP-u64] add/sub/mul: the mathematical result reduced modulo 2^w into UInt64's range, carried by UInt64 (no conversion)
        is_addsubmul(operation) ==> r == Literal::Integer(IntegerLiteral::UInt64(wrap(0, 0x1_0000_0000_0000_0000, math(operation, *first as int, *second as int)) as u64)),
        // [CARRIER-u64] div/mod results are carried by UInt64 as well
        r is Integer && r->Integer_0 is UInt64,
{
    integer_arithmetic_result!(UInt64, first, second, operation)
}



// vacuity guard: the spec is not degenerate
pub proof fn spec_sanity()
    ensures wrap(-128, 256, 128int) == -128, wrap(0, 256, -1int) == 255, wrap(-128, 256, 128int * 1) == -128,
            wrap(0, 0x1_0000_0000_0000_0000, 0x1_0000_0000_0000_0000int) == 0,
{ }

} // verus!
fn main() {}
