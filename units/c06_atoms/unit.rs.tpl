// Unit c06_atoms — property C06, signature validation: the two tables by which the classifier matcher decides what an ATOM of the
// Builtin ABI may be attached to (lang/statics/src/builtin.rs, BuiltinValueAtom::{capability_role, primitive}), copied byte for byte.
// The matcher itself (an arena walker with closures and iterator adapters) is not under contract; it consults exactly these two tables
// in its two `Atom` arms.
use vstd::prelude::*;
verus! {
/*@type lang/syntax/src/lib.rs :: enum IntegerType
   derive Clone, Copy
@*/
/*@type lang/syntax/src/lib.rs :: enum FloatType
   derive Clone, Copy
@*/
/*@type lang/syntax/src/lib.rs :: enum BuiltinTypeRole
   derive Clone, Copy
@*/
pub mod zydeco_syntax {
    use vstd::prelude::*;
    pub use super::{IntegerType, FloatType};
/*@type lang/syntax/src/lib.rs :: enum PrimitiveType
   derive Clone, Copy
@*/
}
/*@type lang/statics/src/builtin.rs :: enum BuiltinValueAtom
   derive Clone, Copy
@*/
impl BuiltinValueAtom {
/*@fn lang/statics/src/builtin.rs :: impl BuiltinValueAtom :: fn capability_role
@*/
    ensures
        // [ATOM-CAP] only the two capability atoms name a type role, each its own: a Reader is never satisfied by the Writer witness
        // (or the OS witness), and no data atom is satisfied by an abstract witness at all
        r == (match self {
            BuiltinValueAtom::Reader => Some(BuiltinTypeRole::Reader),
            BuiltinValueAtom::Writer => Some(BuiltinTypeRole::Writer),
            _ => None::<BuiltinTypeRole>,
        }),
/*@end*/
/*@fn lang/statics/src/builtin.rs :: impl BuiltinValueAtom :: fn primitive
@*/
    ensures
        // [ATOM-PRIM] a data atom is satisfied by exactly the same-named primitive type (same integer / float type), a capability atom by none
        r == (match self {
            BuiltinValueAtom::Integer(t) => Some(zydeco_syntax::PrimitiveType::Integer(t)),
            BuiltinValueAtom::Float(t) => Some(zydeco_syntax::PrimitiveType::Float(t)),
            BuiltinValueAtom::Char => Some(zydeco_syntax::PrimitiveType::Char),
            BuiltinValueAtom::String => Some(zydeco_syntax::PrimitiveType::String),
            BuiltinValueAtom::Bytes => Some(zydeco_syntax::PrimitiveType::Bytes),
            _ => None::<zydeco_syntax::PrimitiveType>,
        }),
        // [ATOM-EXCLUSIVE] every atom is decided by exactly one of the two tables
        r is Some <==> !(self is Reader || self is Writer),
/*@end*/
}
} // verus!
fn main() {}
