// Unit c06_atoms — property C06, signature validation: the two tables by which the classifier matcher decides what an ATOM of the
// Builtin ABI may be attached to (lang/statics/src/builtin.rs, BuiltinValueAtom::{capability_role, primitive}), copied byte for byte.
// The matcher itself (an arena walker with closures and iterator adapters) is not under contract; it consults exactly these two tables
// in its two `Atom` arms.
use vstd::prelude::*;
verus! {
/*@type lang/syntax/src/lib.rs :: enum IntegerType
   derive Clone, Copy
@*/
/*@type lang/syntax/src/lib.rs :: enum FloatType
   derive Clone, Copy
@*/
/*@type lang/syntax/src/lib.rs :: enum BuiltinTypeRole
   derive Clone, Copy, PartialEq, Eq, Structural
@*/
pub mod zydeco_syntax {
    use vstd::prelude::*;
    pub use super::{IntegerType, FloatType};
/*@type lang/syntax/src/lib.rs :: enum PrimitiveType
   derive Clone, Copy
@*/
}
/*@type lang/statics/src/builtin.rs :: enum BuiltinValueAtom
   derive Clone, Copy
@*/
impl BuiltinValueAtom {
/*@fn lang/statics/src/builtin.rs :: impl BuiltinValueAtom :: fn capability_role
@*/
    ensures
        // [ATOM-CAP] only the two capability atoms name a type role, each its own: a Reader is never satisfied by the Writer witness
        // (or the OS witness), and no data atom is satisfied by an abstract witness at all
        r == (match self {
            BuiltinValueAtom::Reader => Some(BuiltinTypeRole::Reader),
            BuiltinValueAtom::Writer => Some(BuiltinTypeRole::Writer),
            _ => None::<BuiltinTypeRole>,
        }),
/*@end*/
/*@fn lang/statics/src/builtin.rs :: impl BuiltinValueAtom :: fn primitive
@*/
    ensures
        // [ATOM-PRIM] a data atom is satisfied by exactly the same-named primitive type (same integer / float type), a capability atom by none
        r == (match self {
            BuiltinValueAtom::Integer(t) => Some(zydeco_syntax::PrimitiveType::Integer(t)),
            BuiltinValueAtom::Float(t) => Some(zydeco_syntax::PrimitiveType::Float(t)),
            BuiltinValueAtom::Char => Some(zydeco_syntax::PrimitiveType::Char),
            BuiltinValueAtom::String => Some(zydeco_syntax::PrimitiveType::String),
            BuiltinValueAtom::Bytes => Some(zydeco_syntax::PrimitiveType::Bytes),
            _ => None::<zydeco_syntax::PrimitiveType>,
        }),
        // [ATOM-EXCLUSIVE] every atom is decided by exactly one of the two tables
        r is Some <==> !(self is Reader || self is Writer),
/*@end*/
}

/*@type lang/syntax/src/lib.rs :: enum BuiltinTypeUniverse
   derive Clone, Copy, PartialEq, Eq, Structural
@*/
impl BuiltinTypeRole {
/*@fn lang/syntax/src/lib.rs :: impl BuiltinTypeRole :: fn universe
@*/
    ensures
        // [ROLE-UNIVERSE] Reader and Writer are value-universe roles, OS a computation-universe role
        r == (if self is OS { BuiltinTypeUniverse::Computation } else { BuiltinTypeUniverse::Value }),
/*@end*/
}

// ---- the capability arm of the matcher (BuiltinClassifierMatcher::matches_value, rule R10): when may an ABSTRACT witness stand where the
// Builtin ABI asks for a capability atom? Arena vocabulary is signature-only; the registry lookup is an uninterpreted function. ----
/*@type lang/syntax/src/lib.rs :: enum BuiltinRole
   derive Clone, Copy, PartialEq, Eq, Structural
@*/
#[derive(Clone, Copy, PartialEq, Eq, Structural)]
pub struct BuiltinValueRole { pub raw: u64 }   // stand-in: the 126 value roles play no part in this arm
pub mod ss {
    use vstd::prelude::*;
    #[derive(Clone, Copy)]
    pub struct AbstId { pub raw: u64 }
}
pub struct Roles { pub raw: u64 }
pub uninterp spec fn witness_role(roles: Roles, w: ss::AbstId) -> Option<BuiltinRole>;
impl Roles {
    #[verifier::external_body]
    pub fn witness(&self, witness: ss::AbstId) -> (r: Option<BuiltinRole>) ensures r == witness_role(*self, witness) { unimplemented!() }
}
pub struct StaticsArena { pub builtin_roles: Roles }
pub struct BuiltinClassifierMatcher<'a> { pub statics: &'a StaticsArena }
// A-is_some_and: std's Option::is_some_and(f) is `match self { None => false, Some(x) => f(x) }`
pub assume_specification<T, F: FnOnce(T) -> bool>[ Option::<T>::is_some_and ](o: Option<T>, f: F) -> (r: bool)
    requires o matches Some(x) ==> call_requires(f, (x,)),
    ensures o is None ==> !r, o matches Some(x) ==> call_ensures(f, (x,), r);
impl<'a> BuiltinClassifierMatcher<'a> {
    pub fn capability_arm(&mut self, $cap.0: ss::AbstId, $cap.1: BuiltinValueAtom) -> (r: bool)
        ensures
            // [MATCH-CAPABILITY] an abstract witness satisfies an atom exactly when the atom is a capability atom and the witness is the
            // one registered for THAT atom's own role (a Reader is not satisfied by the Writer witness, nor by "some value-universe witness")
            r <==> (match $cap.1 {
                BuiltinValueAtom::Reader => witness_role(old(self).statics.builtin_roles, $cap.0) == Some(BuiltinRole::Type(BuiltinTypeRole::Reader)),
                BuiltinValueAtom::Writer => witness_role(old(self).statics.builtin_roles, $cap.0) == Some(BuiltinRole::Type(BuiltinTypeRole::Writer)),
                _ => false,
            }),
    {
/*@arm lang/statics/src/builtin.rs :: impl BuiltinClassifierMatcher :: fn matches_value :: arm /Type..Abst\(\w+\)\), BuiltinValueClassifier..Atom\(\w+\)/
   bind cap
   closure 0: -> (b: bool)
       ensures
       // [MATCH-CAPABILITY-role] the test applied to the atom's role: the witness is registered for exactly that role
       b == (witness_role(self.statics.builtin_roles, $cap.0) == Some(BuiltinRole::Type(role)))
@*/
    }
}
} // verus!
fn main() {}
