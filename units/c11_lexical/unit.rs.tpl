// Unit c11_lexical — property C11 (second mechanism) / C13 anchor: the tooling lexer `LexicalTokens::next`, which keeps
// comments as tokens and is what `fmt`, highlighting and the editor see. Real code under contract: LexicalTokens::{classify, next},
// LexicalToken::new. Same trusted logos model as unit c11_lexer.
use vstd::prelude::*;
use std::ops::Range;
verus! {
/*@type lang/surface/src/textual/lexer.rs :: enum Tok @*/
/*@type lang/surface/src/textual/lexer.rs :: enum LexicalTokenKind
   derive Copy, Clone, Debug, Eq, PartialEq
@*/
/*@type lang/surface/src/textual/lexer.rs :: struct LexicalToken @*/
impl LexicalToken {
/*@fn lang/surface/src/textual/lexer.rs :: impl LexicalToken :: fn new
@*/
   ensures r.range == range && r.kind == kind,
/*@end*/
}
pub type Item<'s> = (Result<Tok<'s>, ()>, Range<usize>);
#[verifier::external_body]
#[verifier::reject_recursive_types(T)]
pub struct SpannedIter<'s, T> { _p: core::marker::PhantomData<&'s T> }
impl<'s> SpannedIter<'s, Tok<'s>> {
    pub uninterp spec fn remaining(&self) -> Seq<Item<'s>>;
    #[verifier::external_body]
    pub fn next(&mut self) -> (r: Option<Item<'s>>)
        ensures
            old(self).remaining().len() == 0 ==> r.is_none() && final(self).remaining() == old(self).remaining(),
            old(self).remaining().len() > 0 ==> r == Some(old(self).remaining()[0])
                && final(self).remaining() == old(self).remaining().skip(1),
    { unimplemented!() }
}
/*@type lang/surface/src/textual/lexer.rs :: struct LexicalTokens @*/

// ---- reference discipline of the tooling lexer (from its documentation: "retains comments and combines a nested block
// comment into one source range"): state = (comment depth d, recorded start cs); each item either changes the state or EMITS ----
pub open spec fn emits(d: int, it: Item) -> bool {
    match it.0 {
        Err(_) => false,
        Ok(Tok::CommentOpen) => false,
        Ok(Tok::CommentClose) => d == 1 || d == 0,          // closes the outermost comment / is an operator outside comments
        Ok(Tok::Unknown(_)) => false,
        Ok(_) => d == 0,
    }
}
pub open spec fn d_step(d: int, it: Item) -> int {
    match it.0 {
        Ok(Tok::CommentOpen) => d + 1,
        Ok(Tok::CommentClose) => if d > 0 { d - 1 } else { d },
        _ => d,
    }
}
pub open spec fn cs_step(d: int, cs: Option<usize>, it: Item) -> Option<usize> {
    match it.0 {
        Ok(Tok::CommentOpen) => if d == 0 { Some(it.1.start) } else { cs },
        Ok(Tok::CommentClose) => if d == 1 { None } else { cs },
        _ => cs,
    }
}
// number of items consumed before the first emitting one (== s.len() if none emits)
pub open spec fn silent(d: int, s: Seq<Item>) -> int decreases s.len() {
    if s.len() == 0 { 0 } else if emits(d, s[0]) { 0 } else { 1 + silent(d_step(d, s[0]), s.skip(1)) }
}
pub open spec fn d_before_emit(d: int, s: Seq<Item>) -> int decreases s.len() {
    if s.len() == 0 { d } else if emits(d, s[0]) { d } else { d_before_emit(d_step(d, s[0]), s.skip(1)) }
}
pub open spec fn cs_before_emit(d: int, cs: Option<usize>, s: Seq<Item>) -> Option<usize> decreases s.len() {
    if s.len() == 0 { cs } else if emits(d, s[0]) { cs } else { cs_before_emit(d_step(d, s[0]), cs_step(d, cs, s[0]), s.skip(1)) }
}


impl<'source> LexicalTokens<'source> {
    // representation invariant: inside a block comment (and before the end of input) its opening offset is recorded;
    // outside one nothing is recorded
    pub open spec fn wf(&self) -> bool {
        &&& self.comment_depth + self.inner.remaining().len() <= usize::MAX
        &&& (self.comment_depth > 0 && self.inner.remaining().len() > 0 ==> self.comment_start is Some)
        &&& (self.comment_depth == 0 ==> self.comment_start is None)
    }

/*@fn lang/surface/src/textual/lexer.rs :: impl LexicalTokens :: fn classify
@*/
    ensures
        // [CLASSIFY] only a comment opener and an unknown character have no lexical role of their own
        r is None <==> (tok is CommentOpen || tok is Unknown),
        r is Some ==> r->Some_0 != LexicalTokenKind::Comment || tok is CommentLine,
/*@end*/
/*@fn lang/surface/src/textual/lexer.rs :: impl Iterator for LexicalTokens :: fn next
   assoc Item
   closure 0: -> (t: LexicalToken)
       ensures t.range.start == start && t.range.end == self.source_len && t.kind == LexicalTokenKind::Comment
   loop 0: invariant
       self.wf(),
       self.inner.remaining().len() <= old(self).inner.remaining().len(),
       self.source_len == old(self).source_len,
       self.inner.remaining() == old(self).inner.remaining().skip(old(self).inner.remaining().len() - self.inner.remaining().len()),
       // [LT-DISCIPLINE-inductive] what has been consumed so far is exactly the silent prefix of the reference discipline
       silent(old(self).comment_depth as int, old(self).inner.remaining())
         == (old(self).inner.remaining().len() - self.inner.remaining().len()) + silent(self.comment_depth as int, self.inner.remaining()),
       d_before_emit(old(self).comment_depth as int, old(self).inner.remaining()) == d_before_emit(self.comment_depth as int, self.inner.remaining()),
       cs_before_emit(old(self).comment_depth as int, old(self).comment_start, old(self).inner.remaining())
         == cs_before_emit(self.comment_depth as int, self.comment_start, self.inner.remaining()),
     decreases self.inner.remaining().len(),
@*/
    requires
        old(self).wf(),
    ensures
        // [LT-WF] (also: the `expect` on the recorded comment start is unreachable, comment_depth never overflows/underflows)
        final(self).wf(),
        final(self).source_len == old(self).source_len,
        // [LT-END] the tooling stream ends only when the underlying token stream is exhausted
        r is None ==> final(self).inner.remaining().len() == 0,
        // [LT-FRAME] items are consumed in order, nothing is pushed back
        final(self).inner.remaining() == old(self).inner.remaining().skip(old(self).inner.remaining().len() - final(self).inner.remaining().len()),
        // [LT-DISCIPLINE] a token produced for a consumed item is produced for the FIRST emitting item of the reference discipline
        // (nothing that should be shown is skipped, nothing inside a comment is shown); depth and recorded start follow it
        r is Some && final(self).inner.remaining().len() > 0 ==> ({
            let k = silent(old(self).comment_depth as int, old(self).inner.remaining());
            let d = d_before_emit(old(self).comment_depth as int, old(self).inner.remaining());
            let cs = cs_before_emit(old(self).comment_depth as int, old(self).comment_start, old(self).inner.remaining());
            let it = old(self).inner.remaining()[k];
            &&& 0 <= k < old(self).inner.remaining().len()
            &&& final(self).inner.remaining().len() == old(self).inner.remaining().len() - k - 1
            &&& final(self).comment_depth == d_step(d, it)
            &&& final(self).comment_start == cs_step(d, cs, it)
            // a block comment is ONE token from the outermost `/-` to its matching `-/`
            &&& (d == 1 ==> cs is Some && r->Some_0.kind == LexicalTokenKind::Comment && r->Some_0.range.start == cs->Some_0 && r->Some_0.range.end == it.1.end)
            &&& (d == 0 ==> r->Some_0.range == it.1)
        }),
        // [LT-NONE] None only if nothing in the rest of the input emits
        r is None ==> silent(old(self).comment_depth as int, old(self).inner.remaining()) == old(self).inner.remaining().len(),
        // [LT-UNTERMINATED] at the end of an input that is still inside a block comment, the unterminated comment is ONE token from its
        // outermost `/-` to the end of the source, delivered exactly once (the recorded start is consumed); otherwise the stream ends
        old(self).inner.remaining().len() == 0 ==> final(self).comment_start is None
            && (match old(self).comment_start {
                    Some(s) => r matches Some(t) && t.range.start == s && t.range.end == old(self).source_len && t.kind == LexicalTokenKind::Comment,
                    None => r is None,
                }),
        // [LT-SPAN] a token produced for a consumed item ends where that item ends; a non-comment token has exactly its range
        r is Some && final(self).inner.remaining().len() > 0 ==> ({
            let last = old(self).inner.remaining()[old(self).inner.remaining().len() - final(self).inner.remaining().len() - 1];
            &&& old(self).inner.remaining().len() > final(self).inner.remaining().len()
            &&& r->Some_0.range.end == last.1.end
            &&& (r->Some_0.kind != LexicalTokenKind::Comment ==> r->Some_0.range == last.1)
        }),
/*@end*/
}
}
fn main(){}
