// Unit c11_driver — property C11, the parser side: the LALRPOP DRIVER the generated parser runs (third-party crate lalrpop-util, the
// version /repo/Cargo.lock pins, read from the local cargo registry) accepts only after the token source has answered `None`.
// Real code under contract, copied byte for byte: Parser::{drive, top_state, parse, parse_eof, next_token, reduce, unrecognized_token_error}
// and the leading guard of Parser::error_recovery (src/state_machine.rs); ParseError, ErrorRecovery (src/lib.rs).
// Stand-ins (signatures only): the ParserDefinition / ParserAction traits (what the GENERATED tables implement), the Parser struct's
// declaration (same fields; the token source is a trait with a ghost "has answered None" flag instead of `Iterator`), the `debug!` macro.
use vstd::prelude::*;
verus! {

/*@type $REGISTRY{lalrpop-util}/src/lib.rs :: enum ParseError @*/
/*@type $REGISTRY{lalrpop-util}/src/lib.rs :: struct ErrorRecovery @*/

pub mod state_machine {
use vstd::prelude::*;
// logging is compiled out in the real crate (`const DEBUG_ENABLED: bool = false`)
macro_rules! debug { ($($args:expr),* $(,)*) => {} }

// ---- what the generated tables implement: signatures only. Verus refuses the mutually recursive trait bounds of the original
// (`type Action: ParserAction<Self>` / `trait ParserAction<D: ParserDefinition>`), so ParserAction is parameterised by the two index
// types it mentions; method names and shapes are the original's. A-tables: two facts about generated code are ASSUMED as postconditions:
// a reduction never empties the state stack (needed only for the driver's own `unwrap`), and `uses_error_recovery` is a constant of
// the grammar (`recovers`). ----
pub trait ParserAction<St, Ri>: Copy {
    fn as_shift(self) -> Option<St>;
    fn as_reduce(self) -> Option<Ri>;
}
pub trait ParserDefinition: Sized {
    type Location: Clone;
    type Error;
    type Token: Clone;
    type TokenIndex: Copy;
    type Symbol;
    type Success;
    type StateIndex: Copy;
    type Action: ParserAction<Self::StateIndex, Self::ReduceIndex>;
    type ReduceIndex: Copy;
    type NonterminalIndex: Copy;
    spec fn recovers(&self) -> bool;
    fn start_location(&self) -> Self::Location;
    fn start_state(&self) -> Self::StateIndex;
    fn token_to_index(&self, token: &Self::Token) -> Option<Self::TokenIndex>;
    fn action(&self, state: Self::StateIndex, token_index: Self::TokenIndex) -> Self::Action;
    fn eof_action(&self, state: Self::StateIndex) -> Self::Action;
    fn token_to_symbol(&self, token_index: Self::TokenIndex, token: Self::Token) -> Self::Symbol;
    fn expected_tokens_from_states(&self, states: &[Self::StateIndex]) -> Vec<String>;
    fn uses_error_recovery(&self) -> (r: bool) ensures r == self.recovers();
    fn reduce(&mut self, reduce_index: Self::ReduceIndex, start_location: Option<&Self::Location>,
        states: &mut Vec<Self::StateIndex>, symbols: &mut Vec<SymbolTriple<Self>>) -> (r: Option<ParseResult<Self>>)
        ensures final(states).len() > 0, final(self).recovers() == old(self).recovers();
}
pub type Location<D> = <D as ParserDefinition>::Location;
pub type Token<D> = <D as ParserDefinition>::Token;
pub type Error<D> = <D as ParserDefinition>::Error;
pub type Success<D> = <D as ParserDefinition>::Success;
pub type Symbol<D> = <D as ParserDefinition>::Symbol;
pub type ParseError<D> = crate::ParseError<Location<D>, Token<D>, Error<D>>;
pub type ParseResult<D> = Result<Success<D>, ParseError<D>>;
pub type TokenTriple<D> = (Location<D>, Token<D>, Location<D>);
pub type SymbolTriple<D> = (Location<D>, Symbol<D>, Location<D>);

// ---- the token source: `Iterator` with one ghost observation, "next() has answered None" ----
pub trait TokenSource<D: ParserDefinition>: Sized {
    spec fn answered_none(&self) -> bool;
    fn next(&mut self) -> (r: Option<Result<TokenTriple<D>, ParseError<D>>>)
        ensures
            r is None ==> final(self).answered_none(),
            r is Some ==> final(self).answered_none() == old(self).answered_none();
}
// same fields as the original declaration (which bounds `I: Iterator<Item = Result<TokenTriple<D>, ParseError<D>>>`)
pub struct Parser<D: ParserDefinition, I: TokenSource<D>> {
    pub definition: D,
    pub tokens: I,
    pub states: Vec<D::StateIndex>,
    pub symbols: Vec<SymbolTriple<D>>,
    pub last_location: D::Location,
}
/*@type $REGISTRY{lalrpop-util}/src/state_machine.rs :: enum NextToken @*/

impl<D: ParserDefinition, I: TokenSource<D>> Parser<D, I> {
/*@fn $REGISTRY{lalrpop-util}/src/state_machine.rs :: impl Parser :: fn drive
@*/
    requires
        // [DRIVE-PRE] the entry point the generated parser calls; it starts `parse` on a one-state stack, so [PARSE-ACCEPT] applies to
        // every run (its token source is consumed by value, so the statement itself lives on `parse`)
        !definition.recovers(),
/*@end*/

/*@fn $REGISTRY{lalrpop-util}/src/state_machine.rs :: impl Parser :: fn top_state
@*/
    requires self.states.len() > 0,
/*@end*/

// termination of the driver depends on the tables and is not claimed (partial correctness)
#[verifier::exec_allows_no_decreases_clause]
/*@fn $REGISTRY{lalrpop-util}/src/state_machine.rs :: impl Parser :: fn parse
   loop 0: invariant self.states.len() > 0, !self.definition.recovers(),
   loop 1: invariant self.states.len() > 0, !self.definition.recovers(),
@*/
    requires old(self).states.len() > 0, !old(self).definition.recovers(),
    ensures
        // [PARSE-ACCEPT] `Ok` is returned only through parse_eof, i.e. only after `tokens.next()` answered None: every token the lexer
        // delivers is pulled before a source can be accepted; a reduction that completes the start symbol while a token is still in
        // hand is an ExtraToken error
        r is Ok ==> final(self).tokens.answered_none(),
/*@end*/

#[verifier::exec_allows_no_decreases_clause]
/*@fn $REGISTRY{lalrpop-util}/src/state_machine.rs :: impl Parser :: fn parse_eof
   loop 0: invariant self.states.len() > 0, !self.definition.recovers(), self.tokens == old(self).tokens,
@*/
    requires old(self).states.len() > 0, !old(self).definition.recovers(),
    ensures
        // [EOF-FRAME] finishing the parse pulls no further token
        final(self).tokens == old(self).tokens,
/*@end*/

    // rule R13: the leading guard of error_recovery; under the precondition (the grammar has no `!` recovery symbol) it returns
    fn error_recovery(&mut self, mut opt_lookahead: Option<TokenTriple<D>>, mut opt_token_index: Option<D::TokenIndex>) -> (r: NextToken<D>)
        requires !old(self).definition.recovers(),
        ensures
            // [NO-RECOVERY-REJECTS] without error recovery a token the tables cannot place ends the parse with an error; nothing is skipped
            r is Done && r->Done_0 is Err,
            final(self).states == old(self).states, final(self).tokens == old(self).tokens, final(self).definition == old(self).definition,
    {
/*@prefix $REGISTRY{lalrpop-util}/src/state_machine.rs :: impl Parser :: fn error_recovery :: through /uses_error_recovery/ @*/
        proof { assert(false); }   // the guard above has returned
        vstd::pervasive::unreached()
    }

/*@fn $REGISTRY{lalrpop-util}/src/state_machine.rs :: impl Parser :: fn reduce
@*/
    ensures final(self).states.len() > 0, final(self).tokens == old(self).tokens, final(self).definition.recovers() == old(self).definition.recovers(),
/*@end*/

/*@fn $REGISTRY{lalrpop-util}/src/state_machine.rs :: impl Parser :: fn unrecognized_token_error
@*/
/*@end*/

/*@fn $REGISTRY{lalrpop-util}/src/state_machine.rs :: impl Parser :: fn next_token
@*/
    ensures
        final(self).states == old(self).states, final(self).definition == old(self).definition,
        // [NEXT-EOF] end of input is signalled exactly when the source answered None
        r is Eof ==> final(self).tokens.answered_none(),
        // [NEXT-ERR] a lexical error item or a token without a terminal index ends the parse with an error
        r is Done ==> r->Done_0 is Err,
/*@end*/
}
} // mod state_machine

} // verus!
fn main() {}
