// Unit c10_front — property C10: leaf obligations of front-end totality.
// Real code under contract: the literal-token actions of the grammar (parser.lalrpop: Integer, Float, Meta integer),
// FileInfo::trans_span2 (offset -> line/column used by every diagnostic), Meta::integer, IntegerLiteral::new, From<f64> for FloatLiteral.
// Obligation kinds: panic-unreachable (unwrap/expect/panic!), index, overflow; and "every location lies inside the file".
use vstd::prelude::*;
use std::{path::PathBuf, sync::Arc};
verus! {

/*@type lang/syntax/src/lib.rs :: enum IntegerLiteral @*/
/*@type lang/syntax/src/lib.rs :: enum FloatLiteral @*/
/*@type lang/syntax/src/lib.rs :: enum Meta @*/

// ---- external types (std, lalrpop-util): opaque to the proof ----
#[verifier::external_type_specification]
#[verifier::external_body]
pub struct ExParseIntError(core::num::ParseIntError);
#[verifier::external_type_specification]
#[verifier::external_body]
pub struct ExParseFloatError(core::num::ParseFloatError);
#[verifier::external_type_specification]
#[verifier::external_body]
pub struct ExPathBuf(std::path::PathBuf);

// stand-in for the external crate type lalrpop_util::ParseError (only the User variant is constructed by grammar actions)
pub mod lalrpop_util {
    pub enum ParseError<L, T, E> {
        InvalidToken { location: L },
        UnrecognizedEof { location: L, expected: Vec<String> },
        UnrecognizedToken { token: (L, T, L), expected: Vec<String> },
        ExtraToken { token: (L, T, L) },
        User { error: E },
    }
}
pub struct TokStandIn;
pub type PErr = lalrpop_util::ParseError<usize, TokStandIn, &'static str>;

// ---- std functions without a vstd specification (A-std-parse): total, no precondition, result unconstrained ----
// What the lexer guarantees about the token text is an uninterpreted predicate; the ONLY fact assumed about std is A3 below.
pub mod std_model {
    use vstd::prelude::*;
    pub uninterp spec fn matches_int_lit(s: &str) -> bool;     // s matches [\+-]?[0-9]+        (lexer.rs IntLit), any length
    pub uninterp spec fn matches_float_lit(s: &str) -> bool;   // s matches the FloatLit regex    (lexer.rs FloatLit)
    pub uninterp spec fn parse_accepts<F>(s: &str) -> bool;    // std's FromStr for F accepts s
    // A3: every string of the lexer's FloatLit rule is in Rust's f64 grammar (overflow parses to inf, never to Err);
    // checked dynamically on every run by the replay binary over all FloatLit strings up to a length bound.
    // Nothing of the kind is assumed for integers: an IntLit of 40 digits does NOT parse.
    pub broadcast proof fn axiom_a3_float_lit_parses(s: &str)
        ensures #[trigger] matches_float_lit(s) ==> parse_accepts::<f64>(s)
    { admit(); }
}
pub use std_model::*;
broadcast use std_model::axiom_a3_float_lit_parses;
#[verifier::external_trait_specification]
pub trait ExFromStr: Sized {
    type ExternalTraitSpecificationFor: core::str::FromStr;
    type Err;
    fn from_str(s: &str) -> Result<Self, Self::Err>;
}
pub assume_specification<F: core::str::FromStr>[ str::parse::<F> ](s: &str) -> (r: Result<F, F::Err>)
    ensures parse_accepts::<F>(s) ==> r is Ok;
pub uninterp spec fn f64_bits(v: f64) -> u64;              // the IEEE-754 binary64 bit pattern of v
pub assume_specification[ f64::to_bits ](v: f64) -> (r: u64) ensures r == f64_bits(v);

impl IntegerLiteral {
/*@fn lang/syntax/src/lib.rs :: impl IntegerLiteral :: fn new
@*/
    ensures r == IntegerLiteral::Unresolved(value),
/*@end*/
}
impl Meta {
/*@fn lang/syntax/src/lib.rs :: impl Meta :: fn integer
@*/
    ensures r == Meta::Integer(value),
/*@end*/
}
impl FloatLiteral {
/*@fn lang/syntax/src/lib.rs :: impl FloatLiteral :: fn from_bits
@*/
    ensures r == FloatLiteral::Float64(bits),
/*@end*/
}
impl vstd::std_specs::convert::FromSpecImpl<f64> for FloatLiteral {
    open spec fn obeys_from_spec() -> bool { true }
    // [FROM-F64] a host double becomes a Float64 literal with the same bits
    open spec fn from_spec(v: f64) -> Self { FloatLiteral::Float64(f64_bits(v)) }
}
impl core::convert::From<f64> for FloatLiteral {
/*@fn lang/syntax/src/lib.rs :: impl From<f64> for FloatLiteral :: fn from
   nopub
@*/
/*@end*/
}

// ---- grammar actions (rule R5): token text -> literal. Precondition = what the lexer rule guarantees. ----
/*@action lang/surface/src/textual/parser.lalrpop :: rule Integer :: action 0
   fn integer_action
   ret Result<IntegerLiteral, PErr>
   symbols "IntLit"
@*/
    requires
        // [INT-PRE] the token is an IntLit of ANY length (so its value need not fit any machine integer)
        matches_int_lit($param),
    ensures
        // [INT-TOTAL] no panic (implicit: no unwrap/expect reachable); the result is a literal or a user error
        r is Ok ==> r->Ok_0 is Unresolved,
/*@end*/

/*@action lang/surface/src/textual/parser.lalrpop :: rule Meta :: action 1
   fn meta_integer_action
   ret Result<Meta, PErr>
   symbols "IntLit"
@*/
    requires
        // [META-PRE]
        matches_int_lit($param),
    ensures
        // [META-TOTAL]
        r is Ok ==> r->Ok_0 is Integer,
/*@end*/

/*@action lang/surface/src/textual/parser.lalrpop :: rule Float :: action 0
   fn float_action
   ret FloatLiteral
   symbols "FloatLit"
@*/
    requires
        // [FLOAT-PRE] the token is a FloatLit; the unwrap is unreachable by A3
        matches_float_lit($param),
    ensures
        // [FLOAT-TOTAL] a parsed decimal literal is a Float64 literal until the checker selects a width
        r is Float64,
/*@end*/

// ---- offset -> line/column ----
/*@type lang/utils/src/span.rs :: struct Cursor2 @*/
/*@type lang/utils/src/span.rs :: struct FileInfo
   derive Debug
@*/

impl FileInfo {
    // what FileInfo::new establishes (proved for bounded inputs by Kani, unit c10_kani harness file_info_new_wf)
    pub open spec fn wf(&self) -> bool {
        &&& self.line_starts.len() >= 1
        &&& self.line_starts[0] == 0
        &&& forall|i: int, j: int| 0 <= i < j < self.line_starts.len() ==> self.line_starts[i] < self.line_starts[j]
        &&& forall|i: int| 0 <= i < self.line_starts.len() ==> self.line_starts[i] <= self.text_len
    }

/*@fn lang/utils/src/span.rs :: impl FileInfo :: fn trans_span2
   loop 0: invariant
       0 <= l <= r <= self.line_starts.len(),
       self.wf(), offset <= self.text_len,
       forall|i: int| 0 <= i < l ==> self.line_starts[i] <= offset,
       forall|i: int| r <= i < self.line_starts.len() ==> self.line_starts[i] > offset,
     decreases r - l,
@*/
    requires
        // [SPAN-PRE] a well-formed line table and an offset inside the file (diagnostic spans come from the lexer: 0 <= offset <= len)
        self.wf(),
        offset <= self.text_len,
    ensures
        // [SPAN-LINE] the line exists
        r.line < self.line_starts.len(),
        // [SPAN-INSIDE] the location lies inside that line: start(line) <= offset < start(line+1)
        self.line_starts[r.line as int] <= offset,
        r.line + 1 < self.line_starts.len() ==> offset < self.line_starts[r.line + 1],
        // [SPAN-COLUMN] the column is the byte distance from the line start
        r.column == offset - self.line_starts[r.line as int],
/*@end*/
}

// ---- vacuity guards ----
pub proof fn reach_trans_span2(f: FileInfo)
    requires f.line_starts@ == seq![0usize, 3usize], f.text_len == 5,
    ensures f.wf(),
{ }

} // verus!
fn main() {}
