// Unit c10_front — property C10: leaf obligations of front-end totality.
// Real code under contract: the literal-token actions of the grammar (parser.lalrpop: Integer, Float, Meta integer),
// FileInfo::trans_span2 (offset -> line/column used by every diagnostic), Meta::integer, IntegerLiteral::new, From<f64> for FloatLiteral.
// Obligation kinds: panic-unreachable (unwrap/expect/panic!), index, overflow; and "every location lies inside the file".
#![feature(pattern)]
use vstd::prelude::*;
use vstd::string::StringSliceAdditionalSpecFns;
use std::{path::PathBuf, sync::Arc};
verus! {

/*@type lang/syntax/src/lib.rs :: enum IntegerLiteral @*/
/*@type lang/syntax/src/lib.rs :: enum FloatLiteral @*/
/*@type lang/syntax/src/lib.rs :: enum Meta @*/

// ---- external types (std, lalrpop-util): opaque to the proof ----
#[verifier::external_type_specification]
#[verifier::external_body]
pub struct ExParseIntError(core::num::ParseIntError);
#[verifier::external_type_specification]
#[verifier::external_body]
pub struct ExParseFloatError(core::num::ParseFloatError);
#[verifier::external_type_specification]
#[verifier::external_body]
pub struct ExPathBuf(std::path::PathBuf);

// stand-in for the external crate type lalrpop_util::ParseError (only the User variant is constructed by grammar actions)
pub mod lalrpop_util {
    pub enum ParseError<L, T, E> {
        InvalidToken { location: L },
        UnrecognizedEof { location: L, expected: Vec<String> },
        UnrecognizedToken { token: (L, T, L), expected: Vec<String> },
        ExtraToken { token: (L, T, L) },
        User { error: E },
    }
}
pub struct TokStandIn;
pub type PErr = lalrpop_util::ParseError<usize, TokStandIn, &'static str>;

// ---- std functions without a vstd specification (A-std-parse): total, no precondition, result unconstrained ----
// What the lexer guarantees about the token text is an uninterpreted predicate; the ONLY fact assumed about std is A3 below.
pub mod std_model {
    use vstd::prelude::*;
    pub uninterp spec fn matches_int_lit(s: &str) -> bool;     // s matches [\+-]?[0-9]+        (lexer.rs IntLit), any length
    pub uninterp spec fn matches_float_lit(s: &str) -> bool;   // s matches the FloatLit regex    (lexer.rs FloatLit)
    pub uninterp spec fn parse_accepts<F>(s: &str) -> bool;    // std's FromStr for F accepts s
    // A3: every string of the lexer's FloatLit rule is in Rust's f64 grammar (overflow parses to inf, never to Err);
    // checked dynamically on every run by the replay binary over all FloatLit strings up to a length bound.
    // Nothing of the kind is assumed for integers: an IntLit of 40 digits does NOT parse.
    pub broadcast proof fn axiom_a3_float_lit_parses(s: &str)
        ensures #[trigger] matches_float_lit(s) ==> parse_accepts::<f64>(s)
    { admit(); }
}
pub use std_model::*;
broadcast use std_model::axiom_a3_float_lit_parses;
#[verifier::external_trait_specification]
pub trait ExFromStr: Sized {
    type ExternalTraitSpecificationFor: core::str::FromStr;
    type Err;
    fn from_str(s: &str) -> Result<Self, Self::Err>;
}
pub assume_specification<F: core::str::FromStr>[ str::parse::<F> ](s: &str) -> (r: Result<F, F::Err>)
    ensures parse_accepts::<F>(s) ==> r is Ok;
pub uninterp spec fn f64_bits(v: f64) -> u64;              // the IEEE-754 binary64 bit pattern of v
pub assume_specification[ f64::to_bits ](v: f64) -> (r: u64) ensures r == f64_bits(v);

impl IntegerLiteral {
/*@fn lang/syntax/src/lib.rs :: impl IntegerLiteral :: fn new
@*/
    ensures r == IntegerLiteral::Unresolved(value),
/*@end*/
}
impl Meta {
/*@fn lang/syntax/src/lib.rs :: impl Meta :: fn integer
@*/
    ensures r == Meta::Integer(value),
/*@end*/
}
impl FloatLiteral {
/*@fn lang/syntax/src/lib.rs :: impl FloatLiteral :: fn from_bits
@*/
    ensures r == FloatLiteral::Float64(bits),
/*@end*/
}
impl vstd::std_specs::convert::FromSpecImpl<f64> for FloatLiteral {
    open spec fn obeys_from_spec() -> bool { true }
    // [FROM-F64] a host double becomes a Float64 literal with the same bits
    open spec fn from_spec(v: f64) -> Self { FloatLiteral::Float64(f64_bits(v)) }
}
impl core::convert::From<f64> for FloatLiteral {
/*@fn lang/syntax/src/lib.rs :: impl From<f64> for FloatLiteral :: fn from
   nopub
@*/
/*@end*/
}

// ---- grammar actions (rule R5): token text -> literal. Precondition = what the lexer rule guarantees. ----
/*@action lang/surface/src/textual/parser.lalrpop :: rule Integer :: action 0
   fn integer_action
   ret Result<IntegerLiteral, PErr>
   symbols "IntLit"
@*/
    requires
        // [INT-PRE] the token is an IntLit of ANY length (so its value need not fit any machine integer)
        matches_int_lit($param),
    ensures
        // [INT-TOTAL] no panic (implicit: no unwrap/expect reachable); the result is a literal or a user error
        r is Ok ==> r->Ok_0 is Unresolved,
/*@end*/

/*@action lang/surface/src/textual/parser.lalrpop :: rule Meta :: action 1
   fn meta_integer_action
   ret Result<Meta, PErr>
   symbols "IntLit"
@*/
    requires
        // [META-PRE]
        matches_int_lit($param),
    ensures
        // [META-TOTAL]
        r is Ok ==> r->Ok_0 is Integer,
/*@end*/

/*@action lang/surface/src/textual/parser.lalrpop :: rule Float :: action 0
   fn float_action
   ret FloatLiteral
   symbols "FloatLit"
@*/
    requires
        // [FLOAT-PRE] the token is a FloatLit; the unwrap is unreachable by A3
        matches_float_lit($param),
    ensures
        // [FLOAT-TOTAL] a parsed decimal literal is a Float64 literal until the checker selects a width
        r is Float64,
/*@end*/

// ---- string-literal escapes (lang/surface/src/textual/escape.rs) ----
// A-str-contains: `str::contains(char)` has no vstd specification; its result is an uninterpreted predicate (nothing is assumed about it:
// both branches are verified for either answer)
pub uninterp spec fn str_has(s: &str, found: bool) -> bool;
#[verifier::allow(undeclared_external_trait)]
pub assume_specification<P> [str::contains] (_0: &str, _1: P) -> (r: bool)
    where P: std::str::pattern::Pattern,
    ensures str_has(_0, r);
// "the text never ends in the middle of an escape": scanning from character k, every backslash is followed by a character
pub open spec fn well_escaped(items: Seq<(usize, char)>, k: int) -> bool
    decreases items.len() - k
{
    if k >= items.len() || k < 0 { true }
    else if items[k].1 == '\\' { k + 1 < items.len() && well_escaped(items, k + 2) }
    else { well_escaped(items, k + 1) }
}
/*@fn lang/surface/src/textual/escape.rs :: fn apply_string_escapes
   loop 0: invariant
       ci_items(iter).len() <= indices_of(code).len(),
       ci_items(iter) == indices_of(code).skip(indices_of(code).len() - ci_items(iter).len()),
       // [ESC-inductive] what is left to scan still never ends inside an escape
       well_escaped(indices_of(code), indices_of(code).len() - ci_items(iter).len()),
     decreases ci_items(iter).len(),
@*/
    requires
        // [ESC-PRE] what the String token's regex `"(\\.|[^"\\])*"` guarantees for the text between the quotes (assumption A3, evaluated
        // at run time): a backslash is always followed by a character
        well_escaped(indices_of(code), 0),
    ensures
        // [ESC-TOTAL] total: the `unwrap` on the character after a backslash is unreachable (panic-unreachable obligation of this function)
        true,
/*@end*/
pub proof fn reach_well_escaped(a: Seq<(usize, char)>)
    requires a == seq![(0usize, 'a'), (1usize, '\\'), (2usize, 'n')],
    ensures well_escaped(a, 0), !well_escaped(a.subrange(0, 2), 0),
{
    assert(well_escaped(a, 3));
    assert(well_escaped(a, 1));
    let b = a.subrange(0, 2);
    assert(b[1].1 == '\\');
    assert(!well_escaped(b, 1));
}

// ---- offset -> line/column ----
// A-str-model: std's `str::char_indices` as a sequence of (byte offset, character) pairs with strictly increasing offsets, each
// inside the string (std: offsets are the starts of the UTF-8 encodings); `str::len` is vstd's own (byte length)
#[verifier::external_type_specification]
#[verifier::external_body]
pub struct ExCharIndices<'a>(core::str::CharIndices<'a>);
pub uninterp spec fn ci_items(it: core::str::CharIndices) -> Seq<(usize, char)>;   // the items still to come
pub uninterp spec fn indices_of(s: &str) -> Seq<(usize, char)>;
pub assume_specification<'a>[ str::char_indices ](s: &'a str) -> (r: core::str::CharIndices<'a>)
    ensures ci_items(r) == indices_of(s);
pub assume_specification<'a>[ <core::str::CharIndices<'a> as Iterator>::next ](it: &mut core::str::CharIndices<'a>) -> (r: Option<(usize, char)>)
    ensures
        ci_items(*old(it)).len() == 0 ==> r is None && ci_items(*final(it)) == ci_items(*old(it)),
        ci_items(*old(it)).len() > 0 ==> r == Some(ci_items(*old(it))[0]) && ci_items(*final(it)) == ci_items(*old(it)).skip(1);
pub proof fn axiom_char_indices(s: &str)
    ensures
        s.spec_bytes().len() <= isize::MAX,
        forall|k: int| 0 <= k < indices_of(s).len() ==> (#[trigger] indices_of(s)[k]).0 < s.spec_bytes().len(),
        forall|j: int, k: int| 0 <= j < k < indices_of(s).len() ==> (#[trigger] indices_of(s)[j]).0 < (#[trigger] indices_of(s)[k]).0,
{ admit(); }
// the line table of the first n characters: 0, then one past every newline among them
pub open spec fn lines_upto(items: Seq<(usize, char)>, n: int) -> Seq<usize>
    decreases n
{
    if n <= 0 { seq![0usize] }
    else if items[n - 1].1 == '\n' { lines_upto(items, n - 1).push((items[n - 1].0 + 1) as usize) }
    else { lines_upto(items, n - 1) }
}
// every entry of that table is 0 or one past a newline's offset; entries increase; so they stay inside the text
pub proof fn lemma_lines_upto(s: &str, n: int)
    requires 0 <= n <= indices_of(s).len(),
    ensures
        lines_upto(indices_of(s), n).len() >= 1,
        lines_upto(indices_of(s), n)[0] == 0,
        forall|i: int, j: int| 0 <= i < j < lines_upto(indices_of(s), n).len() ==> lines_upto(indices_of(s), n)[i] < lines_upto(indices_of(s), n)[j],
        forall|i: int| 0 <= i < lines_upto(indices_of(s), n).len() ==> lines_upto(indices_of(s), n)[i] <= s.spec_bytes().len(),
        // the last entry is at most one past the offset of the last character looked at
        n > 0 ==> lines_upto(indices_of(s), n).last() <= indices_of(s)[n - 1].0 + 1,
        n == 0 ==> lines_upto(indices_of(s), n).last() == 0,
    decreases n
{
    axiom_char_indices(s);
    if n > 0 {
        lemma_lines_upto(s, n - 1);
        if n > 1 { assert(indices_of(s)[n - 2].0 < indices_of(s)[n - 1].0); }
    }
}
/*@type lang/utils/src/span.rs :: struct Cursor2 @*/
/*@type lang/utils/src/span.rs :: struct FileInfo
   derive Debug
@*/

impl FileInfo {
    // what FileInfo::new establishes ([NEW-WF] below, for every string) and trans_span2 relies on
    pub open spec fn wf(&self) -> bool {
        &&& self.line_starts.len() >= 1
        &&& self.line_starts[0] == 0
        &&& forall|i: int, j: int| 0 <= i < j < self.line_starts.len() ==> self.line_starts[i] < self.line_starts[j]
        &&& forall|i: int| 0 <= i < self.line_starts.len() ==> self.line_starts[i] <= self.text_len
    }

/*@fn lang/utils/src/span.rs :: impl FileInfo :: fn new
   desugar_for 0 it
   loop 0: invariant
       ci_items(it).len() <= indices_of(s).len(),
       ci_items(it) == indices_of(s).skip(indices_of(s).len() - ci_items(it).len()),
       // [NEW-inductive] the table built so far is the table of the characters consumed so far
       line_starts@ == lines_upto(indices_of(s), indices_of(s).len() - ci_items(it).len()),
     ensures ci_items(it).len() == 0,
     decreases ci_items(it).len(),
   proof /let text_len = s\.len\(\)/: proof {
       axiom_char_indices(s);
       lemma_lines_upto(s, indices_of(s).len() as int);
   }
   proof /line_starts\.push\(i \+ 1\)/: proof {
       axiom_char_indices(s);
       assert(indices_of(s)[indices_of(s).len() - ci_items(it).len() - 1] == (i, c));
   }
@*/
    ensures
        // [NEW-LINES] the line table is exactly: 0, then one past every newline character, in order
        r.line_starts@ == lines_upto(indices_of(s), indices_of(s).len() as int),
        // [NEW-LEN]
        r.text_len == s.spec_bytes().len(),
        // [NEW-WF] ... which is the well-formedness trans_span2 relies on: so EVERY file has a usable line table (also the empty one)
        r.wf(),
/*@end*/

/*@fn lang/utils/src/span.rs :: impl FileInfo :: fn trans_span2
   loop 0: invariant
       0 <= l <= r <= self.line_starts.len(),
       self.wf(), offset <= self.text_len,
       forall|i: int| 0 <= i < l ==> self.line_starts[i] <= offset,
       forall|i: int| r <= i < self.line_starts.len() ==> self.line_starts[i] > offset,
     decreases r - l,
@*/
    requires
        // [SPAN-PRE] a well-formed line table and an offset inside the file (diagnostic spans come from the lexer: 0 <= offset <= len)
        self.wf(),
        offset <= self.text_len,
    ensures
        // [SPAN-LINE] the line exists
        r.line < self.line_starts.len(),
        // [SPAN-INSIDE] the location lies inside that line: start(line) <= offset < start(line+1)
        self.line_starts[r.line as int] <= offset,
        r.line + 1 < self.line_starts.len() ==> offset < self.line_starts[r.line + 1],
        // [SPAN-COLUMN] the column is the byte distance from the line start
        r.column == offset - self.line_starts[r.line as int],
/*@end*/
}


// ---- where the line/column of a span is computed: Span::set_info (the only caller of trans_span2 on the diagnostic path) ----
pub type Cursor1 = usize;   // as in span.rs
/*@type lang/utils/src/span.rs :: struct Span @*/
// packed cursors: proved over all (usize, usize) by Kani (unit c10_kani [COMPACT-ROUNDTRIP] [COMPACT-TOTAL]); signature only here
pub struct CompactSpan2 { pub raw: u64 }
impl CompactSpan2 {
    #[verifier::external_body]
    pub fn with_cursors(start: Cursor2, end: Cursor2) -> (r: Option<CompactSpan2>) { unimplemented!() }
}
impl Span {
/*@fn lang/utils/src/span.rs :: impl Span :: fn set_info
@*/
    requires
        // [SETINFO-PRE] the file description is the one FileInfo::new builds ([NEW-WF]) and the span lies inside that file (spans are
        // token ranges of the lexer over the same text)
        $p0.wf(),
        old(self).span1.0 <= $p0.text_len && old(self).span1.1 <= $p0.text_len,
    ensures
        // [SETINFO-FRAME] the byte range itself is untouched; both `trans_span2` calls meet their precondition (no panic)
        final(self).span1 == old(self).span1,
/*@end*/
}
// ---- the caller chain of set_info: every grammar action builds its location as `Span::new(l, r).under_loc_ctx(loc)` ----
impl Span {
/*@fn lang/utils/src/span.rs :: impl Span :: fn new
ret out
@*/
    ensures
        // [SPAN-NEW] the byte range is exactly the pair the parser handed over; no line/column, no file yet
        out.span1 == ($p0, $p1), out.span2 is None, out.path is None,
/*@end*/
/*@fn lang/utils/src/span.rs :: impl Span :: fn dummy
@*/
    ensures r.span1 == (0usize, 0usize), r.span2 is None, r.path is None,   // [SPAN-DUMMY] the location of internal nodes: empty range, no file
/*@end*/
/*@fn lang/utils/src/span.rs :: impl Span :: fn get_cursor1
@*/
    ensures r == self.span1,   // [SPAN-RANGE] what the renderer (to_ariadne_span*) points at is the stored byte range, ends in order
/*@end*/
// under_loc_ctx itself (`mut self`) is rejected by the installed Verus ("does not yet support: mut self"): not under contract.
}

// ---- vacuity guards ----
pub proof fn reach_trans_span2(f: FileInfo)
    requires f.line_starts@ == seq![0usize, 3usize], f.text_len == 5,
    ensures f.wf(),
{ }

} // verus!
fn main() {}
