// Unit c11_lexer — property C11: the token stream handed to the parser ends only at end of input.
// Real code under contract: `impl Iterator for Lexer :: fn next` (lang/surface/src/textual/lexer.rs).
// Trusted model: logos' SpannedIter (external crate) as a ghost sequence of remaining items.
use vstd::prelude::*;
use std::ops::Range;
verus! {

/*@type lang/surface/src/textual/lexer.rs :: enum Tok @*/

pub type Item<'s> = (Result<Tok<'s>, ()>, Range<usize>);

// ---- trusted model of logos::SpannedIter (assumption A-logos-iter) ----
#[verifier::external_body]
#[verifier::reject_recursive_types(T)]
pub struct SpannedIter<'s, T> { _p: core::marker::PhantomData<&'s T> }

impl<'s> SpannedIter<'s, Tok<'s>> {
    pub uninterp spec fn remaining(&self) -> Seq<Item<'s>>;

    #[verifier::external_body]
    pub fn next(&mut self) -> (r: Option<Item<'s>>)
        ensures
            old(self).remaining().len() == 0 ==> r.is_none() && final(self).remaining() == old(self).remaining(),
            old(self).remaining().len() > 0 ==> r == Some(old(self).remaining()[0])
                && final(self).remaining() == old(self).remaining().skip(1),
    { unimplemented!() }

    // The rest of logos' cursor API. `slice`/`remainder`/`span` only look; `bump(n)` moves the raw cursor by n bytes, after
    // which the remaining token sequence is whatever re-lexing from the new offset gives: the model says nothing about it
    // (havoc), so code that bumps cannot discharge the frame clauses unless it proves what it skipped.
    #[verifier::external_body]
    pub fn slice(&self) -> (r: &'s str) { unimplemented!() }
    #[verifier::external_body]
    pub fn remainder(&self) -> (r: &'s str) { unimplemented!() }
    #[verifier::external_body]
    pub fn span(&self) -> (r: Range<usize>) { unimplemented!() }
    #[verifier::external_body]
    pub fn bump(&mut self, n: usize) { unimplemented!() }
}

/*@type lang/surface/src/textual/lexer.rs :: struct Lexer @*/

// ---- reference comment discipline, written from the property statement ----
// What one call to `next` must do with the remaining items `s` at comment depth `d`:
// `consumed(d, s)` = how many items are skipped before the delivered one (== s.len() if none is delivered);
// `depth_after(d, s)` = comment depth once those have been skipped.
// Skipped are exactly: text lines, line comments, comment brackets that open/close a nesting level,
// and every token strictly inside a block comment. A `-/` at depth 0 is NOT a comment bracket: it is a
// token outside comments and must be delivered (so the parser can reject it).
pub open spec fn is_skipped(d: int, it: Item) -> bool {
    match it.0 {
        Ok(Tok::TextLine(_)) => true,
        Ok(Tok::CommentLine(_)) => true,
        Ok(Tok::CommentOpen) => true,
        Ok(Tok::CommentClose) => d > 0,
        Ok(_) => d > 0,
        Err(_) => false,
    }
}

pub open spec fn depth_step(d: int, it: Item) -> int {
    match it.0 {
        Ok(Tok::CommentOpen) => d + 1,
        Ok(Tok::CommentClose) => if d > 0 { d - 1 } else { d },
        _ => d,
    }
}

pub open spec fn consumed(d: int, s: Seq<Item>) -> int
    decreases s.len()
{
    if s.len() == 0 { 0 }
    else if is_skipped(d, s[0]) { 1 + consumed(depth_step(d, s[0]), s.skip(1)) }
    else { 0 }
}

pub open spec fn depth_after(d: int, s: Seq<Item>) -> int
    decreases s.len()
{
    if s.len() == 0 { d }
    else if is_skipped(d, s[0]) { depth_after(depth_step(d, s[0]), s.skip(1)) }
    else { d }
}

// span of the outermost `/-` that is still open once everything skippable has been skipped (`cs` = the one recorded so far)
pub open spec fn pending_open(d: int, cs: Range<usize>, s: Seq<Item>) -> Range<usize>
    decreases s.len()
{
    if s.len() == 0 { cs }
    else if is_skipped(d, s[0]) {
        let cs2 = if d == 0 && s[0].0 == Ok::<Tok, ()>(Tok::CommentOpen) { s[0].1 } else { cs };
        pending_open(depth_step(d, s[0]), cs2, s.skip(1))
    }
    else { cs }
}

// A-logos-total: on &str input the logos automaton never yields an Err item (catch-all `Unknown`).
pub open spec fn all_ok(s: Seq<Item>) -> bool {
    forall|i: int| 0 <= i < s.len() ==> (#[trigger] s[i]).0 is Ok
}

pub proof fn lemma_consumed_bounds(d: int, s: Seq<Item>)
    requires d >= 0,
    ensures 0 <= consumed(d, s) <= s.len(), depth_after(d, s) >= 0,
            depth_after(d, s) <= d + consumed(d, s),
    decreases s.len()
{
    if s.len() > 0 && is_skipped(d, s[0]) {
        lemma_consumed_bounds(depth_step(d, s[0]), s.skip(1));
    }
}

impl<'source> Lexer<'source> {
    pub open spec fn wf(&self) -> bool {
        &&& self.comment_depth + self.inner.remaining().len() <= usize::MAX
        &&& all_ok(self.inner.remaining())
    }

/*@fn lang/surface/src/textual/lexer.rs :: impl Iterator for Lexer :: fn next
   ret r
   assoc Item
   break_value
   loop 0: invariant_except_break
       self.comment_depth + self.inner.remaining().len() <= usize::MAX,
       all_ok(self.inner.remaining()),
       self.inner.remaining().len() <= old(self).inner.remaining().len(),
       // [E2-inductive] what has been consumed so far is exactly what the reference discipline skips
       consumed(old(self).comment_depth as int, old(self).inner.remaining())
         == (old(self).inner.remaining().len() - self.inner.remaining().len())
            + consumed(self.comment_depth as int, self.inner.remaining()),
       // [E3-inductive] comment depth so far follows the nesting discipline
       depth_after(old(self).comment_depth as int, old(self).inner.remaining())
         == depth_after(self.comment_depth as int, self.inner.remaining()),
       self.inner.remaining() == old(self).inner.remaining().skip(
            old(self).inner.remaining().len() - self.inner.remaining().len()),
       // [E4-inductive] the recorded `/-` is the outermost one still open
       pending_open(old(self).comment_depth as int, old(self).comment_start, old(self).inner.remaining())
         == pending_open(self.comment_depth as int, self.comment_start, self.inner.remaining()),
     ensures
       @post
     decreases self.inner.remaining().len(),
@*/
    requires
        old(self).wf(),
    ensures
        // [E1] no truncation: the stream ends only when the underlying token stream is exhausted
        r.is_none() ==> final(self).inner.remaining().len() == 0,
        // [E2a] nothing outside comments is skipped: None only if every remaining item was skippable
        r.is_none() ==> consumed(old(self).comment_depth as int, old(self).inner.remaining())
            == old(self).inner.remaining().len(),
        // [E4] the stream never ends inside a block comment: an input that ends in an unterminated `/-` is not accepted silently
        r.is_none() ==> depth_after(old(self).comment_depth as int, old(self).inner.remaining()) == 0,
        // [E2b] the delivered token is the first non-skippable item, with its exact span
        r.is_some() && consumed(old(self).comment_depth as int, old(self).inner.remaining()) < old(self).inner.remaining().len() ==> ({
            let k = consumed(old(self).comment_depth as int, old(self).inner.remaining());
            &&& 0 <= k < old(self).inner.remaining().len()
            &&& old(self).inner.remaining()[k].0 == Ok::<Tok<'source>, ()>(r.unwrap().1)
            &&& r.unwrap().0 == old(self).inner.remaining()[k].1.start
            &&& r.unwrap().2 == old(self).inner.remaining()[k].1.end
        }),
        // [E4b] at the end of an input that is still inside a comment, the outermost unterminated `/-` itself is delivered
        // (with its own span, so the parser's diagnostic points at it), exactly once
        r.is_some() && consumed(old(self).comment_depth as int, old(self).inner.remaining()) == old(self).inner.remaining().len() ==> ({
            let p = pending_open(old(self).comment_depth as int, old(self).comment_start, old(self).inner.remaining());
            &&& depth_after(old(self).comment_depth as int, old(self).inner.remaining()) > 0
            &&& r.unwrap().1 == Tok::<'source>::CommentOpen
            &&& r.unwrap().0 == p.start && r.unwrap().2 == p.end
            &&& final(self).comment_depth == 0
            &&& final(self).inner.remaining().len() == 0
        }),
        // [E3a] frame: exactly the skipped items and the delivered one are consumed
        r.is_some() && consumed(old(self).comment_depth as int, old(self).inner.remaining()) < old(self).inner.remaining().len()
            ==> final(self).inner.remaining() == old(self).inner.remaining().skip(
            consumed(old(self).comment_depth as int, old(self).inner.remaining()) + 1),
        // [E3b] comment depth follows the nesting discipline
        consumed(old(self).comment_depth as int, old(self).inner.remaining()) < old(self).inner.remaining().len()
            ==> final(self).comment_depth == depth_after(old(self).comment_depth as int, old(self).inner.remaining()),
        // [E3c] the representation invariant is preserved
        final(self).wf(),
/*@end*/
}

// ---- vacuity guards ----
// reach: the precondition is satisfiable (a fresh lexer over any all-Ok stream of bounded length)
pub proof fn reach_next(l: Lexer)
    requires l.comment_depth == 0, l.inner.remaining().len() == 0,
    ensures l.wf(),
{ }

// the reference discipline delivers a stray `-/` at depth 0 and skips one inside a comment
pub proof fn spec_sanity(open: Item, close: Item, x: Item)
    requires open.0 == Ok::<Tok, ()>(Tok::CommentOpen), close.0 == Ok::<Tok, ()>(Tok::CommentClose),
             x.0 == Ok::<Tok, ()>(Tok::End),
    ensures consumed(0, seq![close, x]) == 0,
            consumed(0, seq![open, x, close, x]) == 3,
            consumed(0, seq![open, x]) == 2,
            depth_after(0, seq![open, x]) == 1,
{
    reveal_with_fuel(depth_after, 5);
    reveal_with_fuel(consumed, 5);
    assert(seq![open, x, close, x].skip(1) =~= seq![x, close, x]);
    assert(seq![x, close, x].skip(1) =~= seq![close, x]);
    assert(seq![close, x].skip(1) =~= seq![x]);
    assert(seq![open, x].skip(1) =~= seq![x]);
    assert(seq![x].skip(1) =~= Seq::<Item>::empty());
}

} // verus!
fn main() {}
