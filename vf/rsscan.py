"""Lexical scanner for Rust source: enough to find items by path and copy their text byte for byte.

Not a parser. It builds a *mask* of the source (same length) in which the contents of comments,
string literals, raw strings, byte strings and char literals are blanked, so that brace matching
and keyword searches on the mask cannot be fooled by text inside them. Item text is always taken
from the original source at the offsets found on the mask.
"""
import re


class ScanError(Exception):
    pass


def mask(src: str) -> str:
    out = list(src)
    n = len(src)
    i = 0

    def blank(a, b):
        for k in range(a, b):
            if out[k] != '\n':
                out[k] = ' '

    while i < n:
        c = src[i]
        if c == '/' and i + 1 < n and src[i + 1] == '/':
            j = src.find('\n', i)
            if j < 0:
                j = n
            blank(i, j)
            i = j
        elif c == '/' and i + 1 < n and src[i + 1] == '*':
            depth = 1
            j = i + 2
            while j < n and depth > 0:
                if src.startswith('/*', j):
                    depth += 1
                    j += 2
                elif src.startswith('*/', j):
                    depth -= 1
                    j += 2
                else:
                    j += 1
            blank(i, j)
            i = j
        elif c == '"':
            j = i + 1
            while j < n and src[j] != '"':
                j += 2 if src[j] == '\\' else 1
            blank(i + 1, min(j, n))
            i = j + 1
        elif c in 'rb' and (i == 0 or not (src[i - 1].isalnum() or src[i - 1] == '_')):
            m = re.compile(r'(?:br|rb|r)(#*)"').match(src, i)
            if m:
                hashes = m.group(1)
                close = '"' + hashes
                j = src.find(close, m.end())
                if j < 0:
                    raise ScanError('unterminated raw string')
                blank(m.end(), j)
                i = j + len(close)
            elif src.startswith('b"', i):
                i += 1  # the '"' branch handles the rest
            elif src.startswith("b'", i):
                i += 1
            else:
                i += 1
        elif c == "'":
            # char literal or lifetime
            if i + 1 < n and src[i + 1] == '\\':
                j = i + 2
                # escape: \n, \', \\, \x41, \u{...}
                if j < n and src[j] == 'u':
                    j = src.find('}', j) + 1
                elif j < n and src[j] == 'x':
                    j += 3
                else:
                    j += 1
                if j < n and src[j] == "'":
                    blank(i + 1, j)
                    i = j + 1
                else:
                    raise ScanError(f'bad char literal at {i}')
            elif i + 2 < n and src[i + 2] == "'":
                blank(i + 1, i + 2)
                i += 3
            else:
                i += 1  # lifetime
        else:
            i += 1
    return ''.join(out)


def match_close(msk: str, open_pos: int) -> int:
    """Index of the bracket closing the one at open_pos (on the mask)."""
    o = msk[open_pos]
    c = {'{': '}', '(': ')', '[': ']'}[o]
    depth = 0
    for k in range(open_pos, len(msk)):
        ch = msk[k]
        if ch == o:
            depth += 1
        elif ch == c:
            depth -= 1
            if depth == 0:
                return k
    raise ScanError(f'unbalanced {o} at {open_pos}')


def strip_generics(header: str) -> str:
    """Remove balanced <...> groups (not `->` or `=>` arrows) and collapse whitespace."""
    out = []
    depth = 0
    i = 0
    while i < len(header):
        ch = header[i]
        if ch == '<' and not (i > 0 and header[i - 1] in '-='):
            depth += 1
        elif ch == '>' and depth > 0 and not (i > 0 and header[i - 1] in '-='):
            depth -= 1
        elif depth == 0:
            out.append(ch)
        i += 1
    return ' '.join(''.join(out).split())


_KW_ITEM = re.compile(
    r'\b(?:(?:pub(?:\s*\([^)]*\))?\s+)?(?:(?:const|async|unsafe|default)\s+)*)'
    r'((?:fn|enum|struct|impl|mod|trait|const|static|type)\b|macro_rules!)')


class Block:
    """A region of a file: [start, end) in the source, whose children are looked up lazily."""

    def __init__(self, src, msk, start, end):
        self.src, self.msk, self.start, self.end = src, msk, start, end

    def items(self):
        """Yield (kind, name_or_header, item_start, header_end, item_end) for items directly inside."""
        pos = self.start
        while True:
            m = _KW_ITEM.search(self.msk, pos, self.end)
            if not m:
                return
            kind = m.group(1)
            istart = m.start()
            if kind == 'macro_rules!':
                nm = re.compile(r'\s*([A-Za-z_][A-Za-z0-9_]*)\s*').match(self.msk, m.end())
                if not nm:
                    pos = m.end()
                    continue
                k = nm.end()
                close = match_close(self.msk, k)
                yield ('macro', nm.group(1), istart, k, close + 1)
                pos = close + 1
                continue
            # find the end of the header: first '{' or ';' at paren/bracket depth 0
            k = m.end()
            depth = 0
            while k < self.end:
                ch = self.msk[k]
                if ch in '([':
                    depth += 1
                elif ch in ')]':
                    depth -= 1
                elif depth == 0 and ch in '{;':
                    break
                elif depth == 0 and ch == '=' and kind in ('const', 'static', 'type') :
                    # value follows; scan to ';' at depth 0 (may contain braces)
                    kk = k
                    d2 = 0
                    while kk < self.end:
                        c2 = self.msk[kk]
                        if c2 in '([{':
                            d2 += 1
                        elif c2 in ')]}':
                            d2 -= 1
                        elif d2 == 0 and c2 == ';':
                            break
                        kk += 1
                    k = kk
                    break
                k += 1
            if k >= self.end:
                return
            header = self.src[m.start(1):k]
            if self.msk[k] == ';':
                iend = k + 1
                hend = k
            else:
                close = match_close(self.msk, k)
                iend = close + 1
                hend = k
                # tuple struct `struct X(..);` handled above via ';'
            if kind in ('fn', 'enum', 'struct', 'mod', 'trait', 'const', 'static', 'type'):
                nm = re.compile(r'\s*([A-Za-z_][A-Za-z0-9_]*)').match(self.msk, m.end())
                name = nm.group(1) if nm else ''
            else:
                name = strip_generics(header)
                # drop where clauses for impl headers
                name = re.sub(r'\s+where\b.*$', '', name)
                # also remember the raw header with only the leading `impl<..>` parameter list removed
                raw = ' '.join(header.split())
                raw = re.sub(r'^impl\s*<[^>]*>\s*', 'impl ', raw)
                raw = re.sub(r'\s+where\b.*$', '', raw)
                name = name + '\x00' + raw
            yield (kind, name, istart, hend, iend)
            pos = iend

    def child(self, selector: str):
        """selector: 'fn name' | 'enum Name' | 'struct Name' | 'macro name' | 'mod name' |
        'impl Type' | 'impl Trait for Type' | 'const NAME' ; optional '#k' suffix picks the k-th match."""
        ordinal = None
        m = re.match(r'^(.*?)\s*#(\d+)$', selector)
        if m:
            selector, ordinal = m.group(1), int(m.group(2))
        kind, _, name = selector.partition(' ')
        found = []
        for (k, nm, istart, hend, iend) in self.items():
            if k == 'impl' and kind == 'impl':
                if selector in nm.split('\x00'):
                    found.append((k, nm, istart, hend, iend))
            elif k == kind and nm == name:
                found.append((k, nm, istart, hend, iend))
        if not found:
            raise ScanError(f'item not found: {selector!r}')
        if ordinal is None:
            if len(found) > 1:
                raise ScanError(f'ambiguous item {selector!r}: {len(found)} matches (use #k)')
            return found[0]
        if ordinal >= len(found):
            raise ScanError(f'item {selector!r} #{ordinal} not found ({len(found)} matches)')
        return found[ordinal]


class RustFile:
    def __init__(self, path):
        self.path = path
        self.src = open(path, encoding='utf-8').read()
        self.msk = mask(self.src)
        assert len(self.src) == len(self.msk)

    def locate(self, path_selectors):
        """Follow selectors from the file root. Returns (kind, name, item_start, header_end, item_end)."""
        blk = Block(self.src, self.msk, 0, len(self.src))
        item = None
        for idx, sel in enumerate(path_selectors):
            item = blk.child(sel)
            kind, nm, istart, hend, iend = item
            if idx + 1 < len(path_selectors):
                if self.msk[hend] != '{':
                    raise ScanError(f'{sel!r} has no body')
                blk = Block(self.src, self.msk, hend + 1, iend - 1)
        return item


def strip_attributes(src: str, msk: str) -> str:
    """Remove every #[...] / #![...] attribute and /// doc comment line from an item text."""
    out = []
    i = 0
    n = len(src)
    while i < n:
        if msk[i] == '#' and i + 1 < n and (msk[i + 1] == '[' or (msk[i + 1] == '!' and i + 2 < n and msk[i + 2] == '[')):
            k = i + 1 if msk[i + 1] == '[' else i + 2
            close = match_close(msk, k)
            i = close + 1
            continue
        out.append(src[i])
        i += 1
    text = ''.join(out)
    text = re.sub(r'(?m)^[ \t]*///.*\n', '', text)
    # drop lines left empty by attribute removal
    text = re.sub(r'(?m)^[ \t]+\n', '\n', text)
    text = re.sub(r'\n{2,}', '\n', text)
    return text


def find_loops(msk: str, start: int, end: int):
    """Yield (keyword, kw_pos, body_open, body_close) for loops in [start,end) in source order (outer before inner)."""
    rx = re.compile(r'\b(loop|while|for)\b')
    pos = start
    res = []
    while True:
        m = rx.search(msk, pos, end)
        if not m:
            break
        kw = m.group(1)
        # `for` in `impl X for Y` / HRTB cannot occur inside a fn body in our subset, but guard anyway
        k = m.end()
        depth = 0
        while k < end:
            ch = msk[k]
            if ch in '([':
                depth += 1
            elif ch in ')]':
                depth -= 1
            elif depth == 0 and ch == '{':
                break
            k += 1
        if k >= end:
            break
        close = match_close(msk, k)
        res.append((kw, m.start(), k, close))
        pos = m.end()
    return res
