"""Which units serve which property, and what each unit assumes."""
import json
import os

HERE = os.path.dirname(os.path.dirname(os.path.abspath(__file__)))

UNITS = {}
for name in sorted(os.listdir(os.path.join(HERE, 'units'))):
    p = os.path.join(HERE, 'units', name, 'unit.json')
    if os.path.exists(p):
        UNITS[name] = json.load(open(p))

PROPERTIES = json.load(open(os.path.join(HERE, 'units', 'properties.json')))
