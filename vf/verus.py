"""Verus back end: run one generated unit, map every diagnostic to a named obligation."""
import json
import os
import re
import subprocess
import time

from . import rsscan

VERUS = 'verus'

TOP = {'ensures', 'requires@callsite', 'panic-unreachable', 'overflow', 'index', 'div-by-zero'}
AUX = {'invariant', 'decreases', 'assert', 'recommends', 'termination'}


def classify(diag):
    """-> (kind, primary_span, clause_span, note) ; kind None for non-obligation diagnostics."""
    msg = diag.get('message', '')
    spans = diag.get('spans', [])
    prim = next((s for s in spans if s.get('is_primary')), spans[0] if spans else None)
    labels = {(s.get('label') or ''): s for s in spans}

    def lab(sub):
        for k, s in labels.items():
            if sub in k:
                return s
        return None
    if 'post-condition of closure' in msg:
        # the spliced `ensures` of a closure literal (rule R3) does not follow from the closure's body
        return 'ensures', prim, lab('failed this postcondition') or prim
    if 'postcondition not satisfied' in msg:
        return 'ensures', lab('at this exit') or prim, lab('failed this postcondition') or prim
    if 'loop invariant not satisfied' in msg or 'invariant not satisfied' in msg:
        clause = lab('failed this invariant') or prim
        if lab('at this loop exit'):
            # a loop `ensures` clause checked at a `break`: this is the function's postcondition restated (rule R4)
            return 'ensures', lab('at this loop exit'), clause
        return 'invariant', prim, clause
    if 'loop ensures not satisfied' in msg:
        return 'ensures', prim, lab('failed this') or prim
    if 'precondition not satisfied' in msg:
        clause = lab('failed precondition') or prim
        st = ((prim or {}).get('text') or [{}])[0].get('text', '')
        hl = st[max((prim['text'][0].get('highlight_start', 1) - 1), 0):prim['text'][0].get('highlight_end', len(st))] if prim and prim.get('text') else st
        if re.search(r'\.(unwrap|expect)\s*\(|\b(panic|unreachable|unimplemented|todo)!', hl):
            return 'panic-unreachable', prim, clause
        if clause is prim and re.search(r'\w\s*\[[^\]]*\]', hl):
            return 'index', prim, clause
        return 'requires@callsite', prim, clause
    if 'arithmetic underflow/overflow' in msg or 'possible arithmetic' in msg or 'overflow' in msg and 'possible' in msg:
        return 'overflow', prim, prim
    if 'division by zero' in msg:
        return 'div-by-zero', prim, prim
    if 'decreases not satisfied' in msg or 'could not prove termination' in msg:
        return 'decreases', prim, prim
    if 'assertion failed' in msg or 'assert' in msg and 'failed' in msg:
        return 'assert', prim, prim
    if 'unreachable' in msg or 'panic' in msg:
        return 'panic-unreachable', prim, prim
    if 'index' in msg and 'bounds' in msg:
        return 'index', prim, prim
    if 'recommendation not met' in msg or 'recommends' in msg:
        return 'recommends', prim, prim
    if 'while loop: cannot show invariant' in msg:
        return 'invariant', prim, prim
    return None, prim, prim


class UnitIndex:
    """Maps unit line numbers to (function, clause label)."""

    def __init__(self, text):
        self.lines = text.splitlines()
        self.msk = rsscan.mask(text).splitlines()
        self.fn_at = []
        cur = None
        rx = re.compile(r'\b(?:proof\s+|spec\s+|exec\s+)?fn\s+([A-Za-z_][A-Za-z0-9_]*)')
        for m in self.msk:
            g = rx.search(m)
            if g:
                cur = g.group(1)
            self.fn_at.append(cur)

    def fn(self, line):
        i = min(max(line - 1, 0), len(self.fn_at) - 1)
        return self.fn_at[i] or '<top>'

    def label(self, line):
        """Nearest `// [LABEL]` comment at or above `line`, within the same function and the same clause block."""
        i = min(max(line - 1, 0), len(self.lines) - 1)
        f = self.fn_at[i]
        k = i
        while k >= 0 and self.fn_at[k] == f:
            m = re.search(r'//\s*\[([A-Za-z0-9_.\-]+)\]', self.lines[k])
            if m:
                return m.group(1)
            k -= 1
        return None

    def labelled(self):
        out = []
        for i, l in enumerate(self.lines):
            m = re.search(r'//\s*\[([A-Za-z0-9_.\-]+)\]', l)
            if m:
                out.append((self.fn_at[i] or '<top>', m.group(1)))
        return out


def count_obligations(text, extracted_fn_names):
    """Syntactic census of what Verus has to discharge in this unit (see evidence `rule`)."""
    idx = UnitIndex(text)
    msk = '\n'.join(idx.msk)
    labelled = idx.labelled()
    aux = len(re.findall(r'\binvariant(?:_except_break)?\b', msk)) + len(re.findall(r'\bdecreases\b', msk)) \
        + len(re.findall(r'\bassert\s*\(', msk)) + len(re.findall(r'\bproof\s+fn\b', msk))
    implicit = 0
    # implicit safety obligations inside exec fns: panic sites, unwraps, arithmetic that can overflow, indexing
    cur = None
    for i, m in enumerate(idx.msk):
        if idx.fn_at[i] in extracted_fn_names:
            raw = idx.lines[i]
            implicit += len(re.findall(r'\b(?:panic|unreachable|unimplemented|todo)!', m))
            implicit += len(re.findall(r'\.(?:unwrap|expect)\s*\(', m))
            implicit += len(re.findall(r'(?:\+=|-=|\*=|/=|%=)', m))
            implicit += len(re.findall(r'\w\s*\[[^\]]+\]', m)) if 'fn ' not in m else 0
    return dict(labelled=len(labelled), auxiliary=aux, implicit_safety=implicit, labels=labelled)


def run(unit_path, rlimit=30, threads=8, timeout=900, extra=None):
    cmd = [VERUS, os.path.basename(unit_path), '--error-format=json', '--multiple-errors', '50', '--rlimit', str(rlimit),
           '--num-threads', str(threads), '--time']
    if extra:
        cmd += extra
    t0 = time.time()
    try:
        p = subprocess.run(cmd, cwd=os.path.dirname(unit_path), stdout=subprocess.PIPE, stderr=subprocess.STDOUT, text=True, timeout=timeout)
        out = p.stdout
        rc = p.returncode
    except subprocess.TimeoutExpired as e:
        out = (e.stdout or b'').decode() if isinstance(e.stdout, bytes) else (e.stdout or '')
        rc = -9
    wall = time.time() - t0
    text = open(unit_path).read()
    idx = UnitIndex(text)
    diags = []
    compile_errors = []
    verified = errors = None
    smt_ms = None
    rendered = []
    for line in out.splitlines():
        line = line.strip()
        m = re.match(r'verification results::\s*(\d+) verified,\s*(\d+) errors', line)
        if m:
            verified, errors = int(m.group(1)), int(m.group(2))
            continue
        if not line.startswith('{'):
            m = re.search(r'smt.*?(\d+)\s*ms', line)
            continue
        try:
            d = json.loads(line)
        except Exception:
            continue
        if d.get('$message_type') != 'diagnostic':
            continue
        lvl = d.get('level')
        if lvl not in ('error',):
            continue
        msg = d.get('message', '')
        if msg.startswith('aborting due to'):
            continue
        rendered.append(d.get('rendered') or msg)
        kind, site, clause = classify(d)
        if kind is None:
            if 'rlimit' in msg.lower() or 'resource limit' in msg.lower():
                diags.append(dict(kind='rlimit', fn=idx.fn(site['line_start']) if site else '?', label=None, line=site['line_start'] if site else 0,
                                  message=msg, site_text=''))
            else:
                compile_errors.append(msg + (f' @ line {site["line_start"]}' if site else ''))
            continue
        cl = clause['line_start'] if clause else 0
        sl = site['line_start'] if site else 0
        # the function an obligation belongs to is where the *site* (exit, call, panic) is
        fn = idx.fn(sl)
        label = None
        if kind in ('ensures', 'invariant'):
            label = idx.label(cl)
        elif kind == 'requires@callsite':
            label = idx.label(cl) if clause is not site else None
        site_text = (site.get('text') or [{}])[0].get('text', '').strip() if site else ''
        clause_text = (clause.get('text') or [{}])[0].get('text', '').strip() if clause else ''
        diags.append(dict(kind=kind, fn=fn, label=label, line=sl, clause_line=cl, message=msg, site_text=site_text, clause_text=clause_text))
    return dict(rc=rc, wall_s=round(wall, 2), verified=verified, errors=errors, diags=diags, compile_errors=compile_errors,
                rendered=rendered, raw_tail=out[-4000:], cmd=' '.join(cmd), timed_out=(rc == -9))


def obligation_name(unit, d):
    base = f"{unit}::{d['fn']}::{d['kind']}"
    if d.get('label'):
        base += f"[{d['label']}]"
    else:
        # name by the text of the site, not its line number, so unrelated edits do not rename it
        key = re.sub(r'\s+', ' ', d.get('site_text') or '')[:60]
        base += f"@`{key}`"
    return base
