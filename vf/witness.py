"""Witness search and dynamic assumption checks, delegated to the native replay binary (real crates)."""
import json
import subprocess


def _run(cmd, timeout=600):
    try:
        p = subprocess.run(cmd, stdout=subprocess.PIPE, stderr=subprocess.PIPE, text=True, timeout=timeout)
    except subprocess.TimeoutExpired:
        return None, 'timeout'
    line = (p.stdout.strip().splitlines() or [''])[-1]
    try:
        return json.loads(line), p.stderr[-500:]
    except Exception:
        return None, (p.stdout + p.stderr)[-500:]


def run_assumption(a, binp, tier):
    args = a['cmd_thorough'] if tier == 'thorough' and a.get('cmd_thorough') else a['cmd']
    d, err = _run([binp] + args)
    if d is None:
        return dict(id=a['id'], status='not-run', detail=err)
    if d.get('holds'):
        return dict(id=a['id'], status='holds-on-enumerated-inputs', tried=d.get('tried'), text=a['text'])
    return dict(id=a['id'], status='violated', detail=json.dumps(d), text=a['text'])


def search(uname, ucfg, diag, binp, tier, repo, build, log):
    w = ucfg.get('witness')
    if not w:
        return dict(found=False, detail='no witness search defined for this unit')
    per_fn = w.get('by_fn', {})
    spec = per_fn.get(diag.get('fn')) or w.get('default')
    if not spec:
        return dict(found=False, detail=f'no witness search for function {diag.get("fn")}')
    args = list(spec['cmd_thorough'] if tier == 'thorough' and spec.get('cmd_thorough') else spec['cmd'])
    args += diag.get('witness_args') or []
    d, err = _run([binp] + args, timeout=spec.get('timeout', 900))
    if d is None:
        return dict(found=False, detail='witness search failed to run: ' + str(err))
    if d.get('found'):
        return dict(found=True, input=d.get('input'), clause=d.get('clause'), detail=d.get('detail'), tried=d.get('tried'),
                    replay_cmd=[spec['replay'], d.get('input')] if spec.get('replay') else None, searched=' '.join(args))
    return dict(found=False, tried=d.get('tried'), detail='no failing input in the enumerated space', searched=' '.join(args))
