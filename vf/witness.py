"""Witness search and dynamic assumption checks, delegated to the native replay binary (real crates)."""
import json
import os
import re
import subprocess


def _run(cmd, timeout=600):
    try:
        p = subprocess.run(cmd, stdout=subprocess.PIPE, stderr=subprocess.PIPE, text=True, timeout=timeout)
    except subprocess.TimeoutExpired:
        return None, 'timeout'
    line = (p.stdout.strip().splitlines() or [''])[-1]
    try:
        return json.loads(line), p.stderr[-500:]
    except Exception:
        if p.returncode < 0 or p.returncode in (101, 134, 137, 139):
            # the replay process itself was killed (abort, allocation failure, stack overflow, signal) while evaluating the real
            # code: "never fail" is violated. The last `TRYING <input>` line on stderr names the input.
            tries = [l for l in p.stderr.splitlines() if l.startswith('TRYING ')]
            inp = tries[-1][7:] if tries else '<unknown input>'
            return dict(found=True, input=inp, clause='ABORT', detail=f'the process running the real code died (status {p.returncode}) on this input: ' + p.stderr.strip().splitlines()[-1][:200] if p.stderr.strip() else 'died', tried=len(tries)), p.stderr[-300:]
        return None, (p.stdout + p.stderr)[-500:]


def run_assumption(a, binp, tier):
    args = a['cmd_thorough'] if tier == 'thorough' and a.get('cmd_thorough') else a['cmd']
    d, err = _run([binp] + args)
    if d is None:
        return dict(id=a['id'], status='not-run', detail=err)
    if d.get('holds'):
        return dict(id=a['id'], status='holds-on-enumerated-inputs', tried=d.get('tried'), text=a['text'])
    return dict(id=a['id'], status='violated', detail=json.dumps(d), text=a['text'])


def search(uname, ucfg, diag, binp, tier, repo, build, log):
    w = ucfg.get('witness')
    if not w:
        return dict(found=False, detail='no witness search defined for this unit')
    per_fn = w.get('by_fn', {})
    spec = per_fn.get(diag.get('fn')) or w.get('default')
    if not spec:
        return dict(found=False, detail=f'no witness search for function {diag.get("fn")}')
    if spec.get('kind') == 'cli':
        return cli_search(spec['mode'], repo, build, log)
    args = list(spec['cmd_thorough'] if tier == 'thorough' and spec.get('cmd_thorough') else spec['cmd'])
    args += diag.get('witness_args') or []
    d, err = _run([binp] + args, timeout=spec.get('timeout', 900))
    if d is None:
        return dict(found=False, detail='witness search failed to run: ' + str(err))
    if d.get('found'):
        return dict(found=True, input=d.get('input'), clause=d.get('clause'), detail=d.get('detail'), tried=d.get('tried'),
                    replay_cmd=[spec['replay'], d.get('input')] if spec.get('replay') else None, searched=' '.join(args))
    return dict(found=False, tried=d.get('tried'), detail='no failing input in the enumerated space', searched=' '.join(args))


# ---------------------------------------------------------------------------------------------------------------
# Property-level replay through the real command-line tool (built from /repo's working tree on demand)

TRUNCATION_BASES = ["ret 1", "let x = 1 in\nret x", "/- c -/ ret 1", "ret 1 -- c\n"]
TRUNCATION_JUNK = [" -/ junk (((", "\n-/\n)))", " # junk", " ) junk", " \" junk", "\n/- c -/ -/ junk (", " ' junk", " `", "\n--| doc\n-/ x (",
                   " /- a /- b -/ c -/ -/ junk (", " -/", "\n\n-/ ret 2", " \u00a7 junk", " -/ -/ (", " /- x -/ ) (", "\n} junk", " ~ (", " \\ ("]


def build_cli(repo, build, log):
    import os
    import subprocess
    env = dict(os.environ, CARGO_NET_OFFLINE='true', CARGO_TERM_COLOR='never')
    tdir = os.path.join(build, 'cli-target')
    p = subprocess.run(['cargo', 'build', '--offline', '--quiet', '--bin', 'zydeco', '--manifest-path', os.path.join(repo, 'Cargo.toml'), '--target-dir', tdir],
                       env=env, stdout=subprocess.PIPE, stderr=subprocess.STDOUT, text=True)
    b = os.path.join(tdir, 'debug', 'zydeco')
    if p.returncode != 0 or not os.path.exists(b):
        log('CLI build failed:\n' + p.stdout[-2000:])
        return None
    return b


def cli_run(binp, build, content, sub='check'):
    import os
    import subprocess
    d = os.path.join(build, 'cli-work')
    os.makedirs(d, exist_ok=True)
    f = os.path.join(d, 'w.zy')
    if isinstance(content, bytes):
        open(f, 'wb').write(content)
    else:
        open(f, 'w', encoding='utf-8').write(content)
    env = dict(os.environ, RUST_BACKTRACE='0', NO_COLOR='1')
    try:
        p = subprocess.run([binp, sub, f] if sub != 'fmt-check' else [binp, 'fmt', '--check', f], env=env, stdout=subprocess.PIPE, stderr=subprocess.PIPE, text=True, timeout=60)
        return p.returncode, (p.stdout + p.stderr)[-600:]
    except subprocess.TimeoutExpired:
        return -9, 'timeout (60 s)'


def cli_check_one(binp, build, mode, content):
    """-> (fails, detail)"""
    rc, out = cli_run(binp, build, content, 'check')
    if rc == 101 or 'panicked at' in out or rc < 0 or rc >= 128:
        return True, f'`zydeco check` did not end through the normal error path: exit {rc}: {out[-300:]}'
    if mode == 'truncation':
        if rc == 0:
            return True, '`zydeco check` ACCEPTED a file that has tokens outside comments after a complete program (silent truncation)'
        rc2, out2 = cli_run(binp, build, content, 'fmt-check')
        if rc2 == 0:
            return True, '`zydeco fmt --check` accepted a file that `check` rejects: the formatter did not see the whole file'
        # `zydeco fmt` in place: it must fail, or at least not write less program than it read
        d = os.path.join(build, 'cli-work')
        f = os.path.join(d, 'w.zy')
        if isinstance(content, bytes):
            open(f, 'wb').write(content)
        else:
            open(f, 'w', encoding='utf-8').write(content)
        try:
            p = subprocess.run([binp, 'fmt', f], env=dict(os.environ, RUST_BACKTRACE='0', NO_COLOR='1'), stdout=subprocess.PIPE, stderr=subprocess.PIPE, text=True, timeout=60)
            after = open(f, 'rb').read()
            before = content if isinstance(content, bytes) else content.encode('utf-8')
            if p.returncode == 0 and after != before:
                return True, '`zydeco fmt` REWROTE a file that `check` rejects (exit 0): ' + repr(after[:80])
        except subprocess.TimeoutExpired:
            return True, '`zydeco fmt` did not terminate within 60 s'
    return False, ''


def cli_search(mode, repo, build, log):
    binp = build_cli(repo, build, log)
    if not binp:
        return dict(found=False, detail='CLI could not be built')
    n = 0
    if mode == 'truncation':
        for b in TRUNCATION_BASES:
            # the base itself must be accepted, otherwise the candidate says nothing
            rc, _ = cli_run(binp, build, b)
            if rc != 0:
                continue
            for j in TRUNCATION_JUNK:
                n += 1
                fails, detail = cli_check_one(binp, build, mode, b + j)
                if fails:
                    return dict(found=True, input=b + j, clause='PROPERTY', detail=detail, tried=n, replay_cmd=['@cli', mode, b + j], searched='zydeco check/fmt over base x junk candidates')
        # whole files in which the junk sits where a pre-processing step of a caller might cut: before a marker character,
        # beyond a size cap, after bytes that are not UTF-8
        extra = []
        for marker in ['\ufeff', '\x00', '\x0c', '\r', '\x1a', '\u2028']:
            extra.append('((( junk ]\n' + marker + 'ret 1\n')
            extra.append('ret 1 ' + marker + ' ) junk (\n')
        for size in (70 * 1024, 1100 * 1024, 4300 * 1024):
            extra.append('ret 1\n' + ('-- padding line to get past a read cap ........................................\n' * (size // 80)) + '-/ ) junk (((\n')
        extra.append(b'ret 1 -- caf\xe9\n) junk (\n')
        extra.append(b'ret 1\n-- \xff\xfe\n) junk (\n')
        for c in extra:
            n += 1
            fails, detail = cli_check_one(binp, build, mode, c)
            if fails:
                shown = c if isinstance(c, str) and len(c) < 200 else (repr(c[:60]) + f'... ({len(c)} bytes)')
                return dict(found=True, input=shown, clause='PROPERTY', detail=detail, tried=n, replay_cmd=None, searched='zydeco check/fmt over whole-file candidates (markers, size caps, non-UTF-8)')
    return dict(found=False, tried=n, detail='no failing input among the CLI candidates', searched='zydeco check/fmt over base x junk candidates')


# ---------------------------------------------------------------------------------------------------------------
# C05: the literal contracts [RANGE]/[EXACT] evaluated at the property's observation point, the command-line tool:
# `<literal>` in checking position at each of the 8 integer types and both float types, and in synthesising position
# (defaults to Int64 / Float64). These are the two call sites of with_type inside the type checker that no verifier reaches.

INT_TYPES = [('Int8', 'int8', -2**7, 2**7 - 1), ('Int16', 'int16', -2**15, 2**15 - 1), ('Int32', 'int32', -2**31, 2**31 - 1), ('Int64', 'int64', -2**63, 2**63 - 1),
             ('UInt8', 'uint8', 0, 2**8 - 1), ('UInt16', 'uint16', 0, 2**16 - 1), ('UInt32', 'uint32', 0, 2**32 - 1), ('UInt64', 'uint64', 0, 2**64 - 1)]


def _lit_program(repo, tname, pkg, literal, expected, synth=False):
    builtin = os.path.join(repo, 'lib/std/builtin.zy')
    use = f"let value = {literal} that\n  do rendered <- ! ({pkg}/to_string) value;" if synth else f"do rendered <- ! ({pkg}/to_string) {literal};"
    return f"""begin
  param (
    (/numeric; /text; /system) :
    @(import("{builtin}"))
  ) that
  let (Scalar = {tname}, {pkg}) = numeric/{pkg} that
  let string = text/string that
  let (/OS; /process) = system that

  {use}
  ! (string/eq) OS rendered "{expected}"
    {{ ! (process/exit) 0 }}
    {{ ! (process/exit) 3 }}
end
"""


def cli_literals(repo, build, log, only=None):
    import os as _os
    binp = build_cli(repo, build, log)
    if not binp:
        return None, 'CLI could not be built'
    n = 0
    cases = []
    for (tname, pkg, lo, hi) in INT_TYPES:
        for v in sorted({lo - 2, lo - 1, lo, lo + 1, -1, 0, 1, hi - 1, hi, hi + 1, hi + 2}):
            cases.append((tname, pkg, str(v), str(v), lo <= v <= hi, False))
    for v in [2**63 - 1, 2**63, 2**63 + 1, -2**63, -2**63 - 1, 2**64 - 1, 2**64, 0, -1, 2**127 - 1, -2**127]:
        cases.append(('Int64', 'int64', str(v), str(v), -2**63 <= v <= 2**63 - 1, True))
    f32max = '340282350000000000000000000000000000000'
    for lit, exp, ok in [('1.5', '1.5', True), ('3.4028235e38', f32max, True), ('-3.4028235e38', '-' + f32max, True), ('3.40282356e38', f32max, True),
                         ('3.4028236e38', None, False), ('3.5e38', None, False), ('1e39', None, False), ('-1e39', None, False), ('1.0e-50', '0', True), ('16777217.0', '16777216', True)]:
        cases.append(('Float32', 'float32', lit, exp, ok, False))
    for lit, exp, ok in [('-1e3', '-1000', True), ('+1e3', '1000', True), ('1e3', '1000', True), ('-5e-1', '-0.5', True), ('-2E+2', '-200', True), ('-2.5e1', '-25', True)]:
        cases.append(('Float32', 'float32', lit, exp, ok, False))
    for lit, exp, ok in [('1.5', '1.5', True), ('1e308', None, True), ('0.1', '0.1', True), ('-1e3', '-1000', True), ('+1e3', '1000', True), ('-5e-1', '-0.5', True)]:
        cases.append(('Float64', 'float64', lit, exp, ok, False))
    for (tname, pkg, lit, exp, ok, synth) in cases:
        if only and only != f'{pkg}:{lit}:{int(synth)}':
            continue
        n += 1
        prog = _lit_program(repo, tname, pkg, lit, exp if exp is not None else lit, synth)
        rc, out = cli_run(binp, build, prog, 'run')
        where = f"{'unannotated (defaults to ' + tname + ')' if synth else 'at ' + tname}"
        inp = f'{pkg}:{lit}:{int(synth)}'
        if rc == 101 or 'panicked at' in out:
            return dict(found=True, input=inp, clause='RANGE', detail=f'literal {lit} {where}: the tool panicked: {out[-200:]}', tried=n), None
        if ok:
            if rc == 1 and 'outside' in out:
                return dict(found=True, input=inp, clause='RANGE', detail=f'literal {lit} {where} lies in range but is REJECTED: {out[-160:]}', tried=n), None
            if rc == 3 and exp is not None:
                return dict(found=True, input=inp, clause='EXACT', detail=f'literal {lit} {where} is accepted but its run-time value does not print as {exp}', tried=n), None
            if rc not in (0, 3):
                return dict(found=False, tried=n, detail=f'harness program for {lit} {where} did not run (exit {rc}): {out[-200:]}', broken=True), None
        else:
            if rc in (0, 3):
                return dict(found=True, input=inp, clause='RANGE', detail=f'literal {lit} {where} lies OUTSIDE the range but is accepted (run exit {rc}; 3 = run-time value differs from the literal)', tried=n), None
    return dict(found=False, tried=n), None


# ---------------------------------------------------------------------------------------------------------------
# C06: "a Builtin signature that attaches a host role to any other type is rejected" -- the acceptance contract of
# BuiltinSignatureValidator (an arena walker outside both verifiers), evaluated through the real command-line tool on
# one-atom mutations of the shipped signature files.

_ATOM_FILES = {'i8', 'i16', 'i32', 'i64', 'u8', 'u16', 'u32', 'u64', 'f32', 'f64', 'char', 'string', 'bytes'}

_SIG_MAIN = """begin
  param (
    (/core; /representations; /numeric; /text; /system) :
    @(import("builtin.zy"))
  ) that
  let (/OS; /io; /fs; /stdio; /process) = system that
  ! (process/exit) 0
end
"""


def _sig_candidates(root):
    import re as _re
    cands = []
    for dirpath, _, files in os.walk(os.path.join(root, 'builtin')):
        if os.path.basename(dirpath) == 'intrinsic':
            continue
        for fn in sorted(files):
            if not fn.endswith('.zy'):
                continue
            p = os.path.join(dirpath, fn)
            text = open(p, encoding='utf-8').read()
            if '@[builtin(' not in text:
                continue
            atoms = {}
            bind_spans = []
            for m in _re.finditer(r'(?m)^\s*let\s+([A-Z]\w*)\s*=\s*@\(import\("[^"]*intrinsic/(\w+)\.zy"\)\)\s*in\s*$', text):
                bind_spans.append((m.start(), m.end()))
                if m.group(2) in _ATOM_FILES:
                    atoms[m.group(1)] = 'intrinsic:' + m.group(2)
            for m in _re.finditer(r'(?m)^\s*param\s+([A-Z]\w*)\s*:\s*VType\s*in\s*$', text):
                bind_spans.append((m.start(), m.end()))
                atoms[m.group(1)] = 'param:' + m.group(1)
            names = sorted(atoms)
            if len(names) < 2:
                continue
            k = 0
            for m in _re.finditer(r'\b(' + '|'.join(map(_re.escape, names)) + r')\b', text):
                if any(a <= m.start() < b for a, b in bind_spans):
                    continue
                others = [n for n in names if atoms[n] != atoms[m.group(1)]]
                if not others:
                    continue
                to = others[k % len(others)]
                k += 1
                cands.append((os.path.relpath(p, root), m.start(), m.end(), m.group(1), to))
    return cands


def cli_signature_mutations(repo, build, log, tier='quick', only=None):
    import shutil as _sh
    binp = build_cli(repo, build, log)
    if not binp:
        return None, 'CLI could not be built'
    work = os.path.join(build, 'sig-work')
    if os.path.exists(work):
        _sh.rmtree(work)
    os.makedirs(work)
    _sh.copy(os.path.join(repo, 'lib/std/builtin.zy'), os.path.join(work, 'builtin.zy'))
    _sh.copytree(os.path.join(repo, 'lib/std/builtin'), os.path.join(work, 'builtin'))
    main = os.path.join(work, 'main.zy')
    open(main, 'w').write(_SIG_MAIN)
    env = dict(os.environ, RUST_BACKTRACE='0', NO_COLOR='1')

    def check():
        try:
            p = subprocess.run([binp, 'check', main], env=env, stdout=subprocess.PIPE, stderr=subprocess.PIPE, text=True, timeout=120)
            return p.returncode, (p.stdout + p.stderr)[-400:]
        except subprocess.TimeoutExpired:
            return -9, 'timeout'
    rc, out = check()
    if rc != 0:
        return dict(found=False, broken=True, detail=f'control: the unmodified signature copy does not check (exit {rc}): {out[-200:]}', tried=0), None
    cands = _sig_candidates(work)
    if False and tier != 'thorough' and not only:
        # quick: at most 5 occurrences per file, evenly spaced
        byf = {}
        for c in cands:
            byf.setdefault(c[0], []).append(c)
        cands = []
        for f, cs in sorted(byf.items()):
            step = max(1, len(cs) // 5)
            cands += cs[::step][:5]
    n = 0
    for (rel, a, b, frm, to) in cands:
        inp = f'{rel}@{a}:{frm}->{to}'
        if only and only != inp:
            continue
        p = os.path.join(work, rel)
        orig = open(p, encoding='utf-8').read()
        open(p, 'w', encoding='utf-8').write(orig[:a] + to + orig[b:])
        rc, out = check()
        open(p, 'w', encoding='utf-8').write(orig)
        n += 1
        line = orig[:a].count('\n') + 1
        if rc == 0:
            return dict(found=True, input=inp, clause='SIGNATURE', tried=n,
                        detail=f'{rel}:{line}: replacing `{frm}` by `{to}` in the Builtin signature is ACCEPTED: a host role is attached to a type other than its ABI classifier'), None
        if rc == 101 or 'panicked at' in out or rc < 0:
            return dict(found=True, input=inp, clause='SIGNATURE', tried=n, detail=f'{rel}:{line}: `{frm}`->`{to}`: the tool did not end through the normal error path (exit {rc}): {out[-200:]}'), None
    return dict(found=False, tried=n, candidates=len(cands)), None


# ---------------------------------------------------------------------------------------------------------------
# C10: the totality contract of the whole front end ("exit status 0 or 1, never a panic") evaluated through the real
# command-line tool on small syntactically plausible but ill-formed sources (all phases: parse, directives, desugar,
# resolve, type check, diagnostics rendering). Returns EVERY failing candidate, so that known findings can be told apart.

def front_end_candidates():
    c = ['', '\n', '-- only a comment\n', '/- c -/', 'ret', 'ret ret', 'ret 1', '! 1', '{ 1 }', '1 1', 'ret (1 : 2)', 'ret (1, )', 'ret ()', 'begin end', 'begin that end',
         'begin ret 1 end', 'let x = 1 in ret x', 'let x = in ret x', 'do x <- ret 1; ret x', 'do x <- 1; ret x', 'fn x => ret x', 'fix x => ! x', 'ret x', '! x', 'ret "a" 1']
    metas = ['debug("l")', 'debug', 'debug(1)', 'debug("a","b")', 'monadic', 'monadic(1)', 'import("nonexistent.zy")', 'import(1)', 'import', 'import()', 'builtin(foo)', 'builtin(str_get)',
             'builtin', 'builtin(1)', 'intrinsic(i64)', 'intrinsic(nope)', 'intrinsic', 'format(width(0))', 'format(width(99999999999))', 'format(indent(0))', 'format', 'doc("x")', 'unknown_meta', 'x(y(z("w",1)))', '"s"', '1']
    for m in metas:
        for body in ['1', 'ret 1', '_', '(x : Int)', 'fn x => ret x', '"s"']:
            c.append(f'@[{m}] {body}')
    for d in ['.a', '.a .b', '+A', '+A(.x)', '.a x', 'x .a', '(.a)', '(x, .a)']:
        c += [f'codata | .d {d} : T end', f'codata | {d} : T end', f'data | +C {d} end', f'comatch | .d {d} => ret 1 end', f'comatch | {d} => ret 1 end', f'match 1 | {d} => ret 1 end',
              f'fn {d} => ret 1', f'pi {d} . T', f'forall {d} . T', f'exists {d} . T', f'sigma {d} . T', f'let {d} = 1 in ret 1', f'do {d} <- ret 1; ret 1', f'fix {d} => ret 1',
              f'begin param {d} that ret 1 end', f'begin let {d} = 1 that ret 1 end', f'ret ({d})', f'! ({d})', f'({d} : T)']
    # unattached documentation text of minimal length (warnings are rendered with labels computed from the block's range)
    c += ['--|', '--|x', '--| ', 'ret 1 --|', 'ret 1\n--| t', '--|\nret 1', 'ret 1 --| a\n--|\n', '--|\n--|\n']
    # imports whose path climbs above the file system root, is empty, is a directory, or names the file itself
    c += ['@[import("' + '../' * 40 + 'x.zy")] _', '@(import("' + '../' * 40 + 'x.zy"))', '@[import("")] _', '@[import(".")] _', '@[import("/")] _', '@[import("w.zy")] _', '@[import("./w.zy")] _',
          '@[import("a","b")] _', '@(import())', '@(import(1))', '@(import("nonexistent.zy"))']
    # degenerate parameters in every quantifier / binder form
    for d in ['(())', '(() : K)', '(a = ())', '()', '(() , ())', '((()))', '(_ : _)', '(a : )']:
        c += [f'exists {d} . T', f'sigma {d} . T', f'forall {d} . T', f'pi {d} . T', f'fn {d} => ret 1', f'let {d} = 1 in ret 1', f'do {d} <- ret 1; ret 1', f'begin param {d} that ret 1 end',
              f'match 1 | {d} => ret 1 end', f'data | +C {d} end', f'codata | .d {d} : T end', f'fix {d} => ret 1']
    seen = set()
    out = []
    for x in c:
        if x not in seen:
            seen.add(x)
            out.append(x)
    return out


def cli_front_end(repo, build, log, only=None):
    binp = build_cli(repo, build, log)
    if not binp:
        return None, 'CLI could not be built'
    fails = []
    n = 0
    for src in front_end_candidates():
        if only is not None and src != only:
            continue
        n += 1
        rc, out = cli_run(binp, build, src + '\n', 'check')
        if rc not in (0, 1) or 'panicked at' in out:
            m = re.search(r'panicked at ([^\n]*)\n([^\n]*)', out)
            where = (m.group(1) + ' ' + m.group(2)) if m else out[-160:]
            fails.append(dict(input=src, clause='panic-unreachable', detail=f'`zydeco check` did not end through the normal error path (exit {rc}): {where}'))
    return dict(found=bool(fails), failures=fails, tried=n), None


# ---------------------------------------------------------------------------------------------------------------
# C05: every numeric operation reached THROUGH THE SHIPPED Builtin PACKAGE (signature files, linker, routing, dispatch,
# kernel) by a generated program run with the real command-line tool.

def cli_numeric_ops(repo, build, log, only=None):
    binp = build_cli(repo, build, log)
    if not binp:
        return None, 'CLI could not be built'
    builtin = os.path.join(repo, 'lib/std/builtin.zy')
    n = 0

    def prog(tname, pkg, body):
        return f"""begin
  param (
    (/numeric; /text; /system) :
    @(import("{builtin}"))
  ) that
  let (Scalar = {tname}, {pkg}) = numeric/{pkg} that
  let string = text/string that
  let (/OS; /process) = system that
{body}
end
"""
    cases = []
    for (tname, pkg, lo, hi) in INT_TYPES:
        m = hi - lo + 1

        def w(x):
            return (x - lo) % m + lo
        a, b = (hi, 3) if lo == 0 else (lo, 3)

        def tdiv(x, y):
            q = abs(x) // abs(y)
            return q if (x >= 0) == (y >= 0) else -q
        ops = [('add', hi, 1, w(hi + 1)), ('sub', lo, 1, w(lo - 1)), ('mul', hi, 2, w(hi * 2)), ('div', 7, 2, 3), ('mod', 7, 2, 1), ('div', a, b, tdiv(a, b)), ('mod', a, b, a - b * tdiv(a, b))]
        for (op, x, y, want) in ops:
            body = f'  do r <- ! ({pkg}/{op}) {x} {y};\n  do rendered <- ! ({pkg}/to_string) r;\n  ! (string/eq) OS rendered "{want}"\n    {{ ! (process/exit) 0 }}\n    {{ ! (process/exit) 3 }}'
            cases.append((f'{pkg}:{op}:{x}:{y}', prog(tname, pkg, body), f'{pkg}/{op} {x} {y} must be {want}'))
        for (op, x, y, want) in [('lt', lo, hi, True), ('lt', hi, lo, False), ('gt', hi, lo, True), ('gt', lo, hi, False), ('eq', hi, hi, True), ('eq', lo, hi, False)]:
            body = f'  ! ({pkg}/{op}) OS {x} {y}\n    {{ ! (process/exit) {0 if want else 3} }}\n    {{ ! (process/exit) {3 if want else 0} }}'
            cases.append((f'{pkg}:{op}:{x}:{y}', prog(tname, pkg, body), f'{pkg}/{op} {x} {y} must be {str(want).lower()}'))
    for (tname, pkg) in [('Float32', 'float32'), ('Float64', 'float64')]:
        for (op, x, y, want) in [('add', '1.5', '2.25', '3.75'), ('sub', '1.5', '2.25', '-0.75'), ('mul', '1.5', '2.0', '3'), ('div', '7.5', '2.5', '3')]:
            body = f'  do r <- ! ({pkg}/{op}) {x} {y};\n  do rendered <- ! ({pkg}/to_string) r;\n  ! (string/eq) OS rendered "{want}"\n    {{ ! (process/exit) 0 }}\n    {{ ! (process/exit) 3 }}'
            cases.append((f'{pkg}:{op}:{x}:{y}', prog(tname, pkg, body), f'{pkg}/{op} {x} {y} must be {want}'))
        for (op, x, y, want) in [('lt', '1.5', '2.5', True), ('lt', '2.5', '1.5', False), ('gt', '2.5', '1.5', True), ('gt', '1.5', '2.5', False), ('eq', '1.5', '1.5', True), ('eq', '1.5', '2.5', False), ('lt', '-0.0', '0.0', False), ('gt', '0.0', '-0.0', False)]:
            body = f'  ! ({pkg}/{op}) OS {x} {y}\n    {{ ! (process/exit) {0 if want else 3} }}\n    {{ ! (process/exit) {3 if want else 0} }}'
            cases.append((f'{pkg}:{op}:{x}:{y}', prog(tname, pkg, body), f'{pkg}/{op} {x} {y} must be {str(want).lower()}'))
        body = f'  do rendered <- ! ({pkg}/to_string) 0.1;\n  ! (string/eq) OS rendered "0.1"\n    {{ ! (process/exit) 0 }}\n    {{ ! (process/exit) 3 }}'
        cases.append((f'{pkg}:to_string:0.1', prog(tname, pkg, body), f'{pkg}/to_string 0.1 must print the shortest decimal that denotes the value at that width: 0.1'))
    for (inp, src, what) in cases:
        if only and only != inp:
            continue
        n += 1
        rc, out = cli_run(binp, build, src, 'run')
        if rc == 0:
            continue
        if rc == 3:
            return dict(found=True, input=inp, clause='PACKAGE', detail=f'through the shipped Builtin package: {what} -- it is not', tried=n), None
        if rc == 101 or 'panicked at' in out:
            return dict(found=True, input=inp, clause='PACKAGE', detail=f'{what}: the tool panicked: {out[-160:]}', tried=n), None
        return dict(found=False, broken=True, tried=n, detail=f'harness program {inp} did not run (exit {rc}): {out[-200:]}'), None
    return dict(found=False, tried=n), None


def generated_glue(repo, build, log):
    """Assumption A2-glue of C11, evaluated on the parser LALRPOP GENERATES from the current grammar (found in the build output of the CLI
    built from /repo on this run): the entry point `SourceUnitParser::parse` hands exactly `tokens.into_iter().map(to_triple)` to
    `state_machine::Parser::drive`, `to_triple` of a (start, token, end) triple is `Ok(value)`, and no generated table uses error recovery."""
    import glob
    import os
    binp = build_cli(repo, build, log)
    if not binp:
        return dict(status='not-run', detail='CLI could not be built')
    cands = sorted(glob.glob(os.path.join(build, 'cli-target', 'debug', 'build', 'zydeco-surface-*', 'out', 'textual', 'parser.rs')), key=os.path.getmtime)
    if not cands:
        return dict(status='not-run', detail='generated parser.rs not found in the build output')
    src = open(cands[-1], encoding='utf-8').read()
    norm = re.sub(r'\s+', ' ', src)
    problems = []
    m = re.search(r'impl SourceUnitParser \{.*?pub fn parse<.*?\{ (let __tokens = __tokens0\.into_iter\(\); let mut __tokens = __tokens\.map\(\|t\| __ToTriple::to_triple\(t\)\); '
                  r'__state_machine::Parser::drive\( __StateMachine \{[^}]*\}, __tokens, \)) \}', norm)
    if not m:
        problems.append('SourceUnitParser::parse does not have the form `drive(__StateMachine{..}, __tokens0.into_iter().map(to_triple))`')
    n_rec = len(re.findall(r'fn uses_error_recovery\(&self\) -> bool \{ false \}', norm))
    n_all = len(re.findall(r'fn uses_error_recovery\(&self\) -> bool \{', norm))
    if n_all == 0 or n_rec != n_all:
        problems.append(f'{n_all - n_rec} of {n_all} generated tables use error recovery')
    if not re.search(r"for \(usize, Tok<'input>, usize\) \{ fn to_triple\(self\) -> Result<[^{]*\{ Ok\(self\) \}", norm):
        problems.append('`to_triple` for (usize, Tok, usize) is not `Ok(self)`')
    if problems:
        return dict(status='violated', detail='; '.join(problems), file=cands[-1])
    return dict(status='holds-on-generated-code', tried=n_all, file=cands[-1])
