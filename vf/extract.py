"""Mechanical extractor: builds a verification unit from a template by copying item text out of
/repo's *current working tree* and splicing contract clauses in. See DESIGN.md 2.1 for the closed
list of transformations (RULES below is that list and is printed into every evidence file).

Template directives (everything else in a template is copied as is -- it is specification text,
trusted models of external code, proof functions and harnesses, never a re-typed copy of repo code):

  /*@type  <file> :: <selector> [:: <selector>...] @*/
        copy an enum/struct/const/type item; attributes and doc comments dropped, visibility widened.
  /*@macro <file> :: macro <name> @*/
        copy a macro_rules! item verbatim.
  /*@fn    <file> :: <selector> [:: ...] :: fn <name>
       [ret <ident>]                      name for the return value (default r)
       [name <ident>]                     rename the function (used when one source fn is instantiated twice)
       [break_value]                      rule R4
       [self_ty <Type>]                   replace `Self` in the signature (used when a trait method is lifted out)
       [loop <k>: <clauses...>]           invariant/decreases text for the k-th loop (source order)
       [proof <anchor-regex>: <text>]     ghost text inserted *before* the first body line matching the regex
       [nosig]                            emit only `{ body }` (the template writes the signature)
       [plain]                            plain Rust output (Kani units): the return value is not named
     @*/
       <requires/ensures/decreases clauses in Verus syntax>
     /*@end*/
        copy a function: signature, then the clauses, then the body byte for byte.
  /*@body  <file> :: ... :: fn <name> @*/    the body block only `{ ... }` (for Kani wrappers)
  /*@expr  <file> :: rule <Rule> :: action <k> @*/   LALRPOP action expression (rule 5)
"""
import hashlib
import os
import re

from . import rsscan
from .rsscan import RustFile, ScanError

RULES = [
    "R1 drop: doc comments, #[...] attributes (derive, inline, logos token/regex attributes), #[cfg(test)] modules",
    "R1b re-emit `#[derive(..)]` for traits the source item derives when a body needs them (Debug for `{:?}`, Hash/Eq for map keys); add Verus' `Structural` "
    "marker only when the source derives both PartialEq and Eq (derived equality is structural by construction)",
    "R2 widen visibility of extracted items and their fields to `pub` (Verus open spec fns must see fields)",
    "R3 splice contract clauses between signature and body; name the return value `-> (r: T)`; insert loop invariant/decreases "
    "clauses in front of the body of the loop selected by ordinal; insert ghost proof blocks (proof { .. } / assert) in front of an anchored statement; "
    "splice `-> (name: T) requires .. ensures ..` between the parameter list and the block body of a closure literal selected by ordinal",
    "R4 desugar break-with-value (Verus has none): a `loop` that is the sole tail expression of the function body and contains no nested loop or closure "
    "becomes `let __ret: T; loop { .. }; __ret` with each `break <e>` replaced by `{ __ret = <e>; break; }`; refused (exit 2) if the side condition does not hold",
    "R5 a LALRPOP action expression is wrapped as the body of `fn <rule>_action(tok: &str) -> T` with `<>` replaced by `tok`",
    "R8 the initializer expression of a named `let` statement inside a function body may be copied and wrapped as the body of a function whose "
    "parameters are the free variables of that expression (used for the kernels of host operations whose enclosing function uses slice patterns)",
    "R9 a by-value parameter `p: Vec<T>` may become `p: &[T]` when the scanner proves every use of p in the body is `p.as_slice()` or `&p` "
    "(CBMC does not terminate on the drop glue of heap-stored recursive syntax; the harness supplies `as_slice` on slices as the identity)",
    "R10 the block of one match arm, selected by a regex on its pattern, may be copied and wrapped as the body of a function whose parameters are "
    "the arm's pattern bindings and free variables (given by the template); an unused `_` loop pattern inside may be given a name so invariants can mention it",
    "R11 in an extracted function the sub-pattern `ZValue::Thunk(_)` may be weakened to `_`: continuation arguments are then not required to be "
    "thunks (the function only clones and forces them); positions, order, arity and everything else stay the repository's",
    "R12 a `for PAT in EXPR { BODY }` loop whose EXPR is itself an iterator may be written as Rust defines it: `let mut it = EXPR; loop { match it.next() "
    "{ Some(PAT) => { BODY } None => break } }` (Verus has no specification for std's string iterators in `for`); refused if the loop contains a labelled "
    "break/continue; if EXPR is not an iterator the unit does not compile (exit 2)",
    "R13 the leading guard of a function body (`if <cond> { .. return .. }`, preceded by nothing but logging-macro statements) may be extracted alone and "
    "verified under the precondition that makes it return; the rest of that body is then NOT verified and is unreachable under the precondition",
    "R6 a trait-impl method may be emitted inside an inherent impl (Verus forbids requires on trait impls); its text is unchanged",
    "R7 `Self::` / `Self` may be replaced by the concrete type name when a method is lifted out of its impl (option self_ty)",
]


class ExtractError(Exception):
    pass


_files = {}


def _file(repo, rel):
    p = os.path.join(repo, rel)
    if p not in _files:
        if not os.path.exists(p):
            raise ExtractError(f'lost anchor: file {rel} does not exist')
        _files[p] = RustFile(p)
    return _files[p]


def reset_cache():
    _files.clear()


def _sha(s):
    return hashlib.sha256(s.encode()).hexdigest()[:16]


def _widen(text, msk_text):
    # fields: `name: Type` at depth 1 inside struct braces; variants need nothing. Keep simple: add pub to
    # named struct fields and to the item keyword.
    return text


def _pubify_item(text):
    text = re.sub(r'^(pub(\s*\([^)]*\))?\s+)?', 'pub ', text, count=1)
    return text


def _pubify_fields(text, kind):
    if kind != 'struct':
        return text
    m = rsscan.mask(text)
    o = m.find('{')
    if o < 0:
        # tuple struct: make each component pub
        o = m.find('(')
        if o < 0:
            return text
        c = rsscan.match_close(m, o)
        inner = text[o + 1:c]
        parts = _split_top(inner)
        parts = [p if not p.strip() or p.strip().startswith('pub') else re.sub(r'^(\s*)', r'\1pub ', p, count=1) for p in parts]
        return text[:o + 1] + ','.join(parts) + text[c:]
    c = rsscan.match_close(m, o)
    inner = text[o + 1:c]
    parts = _split_top(inner)
    new = []
    for p in parts:
        if not p.strip():
            new.append(p)
            continue
        if re.match(r'\s*pub\b', p):
            new.append(p)
        else:
            new.append(re.sub(r'^(\s*)', r'\1pub ', p, count=1))
    return text[:o + 1] + ','.join(new) + text[c:]


def _split_top(s):
    m = rsscan.mask(s)
    parts = []
    depth = 0
    adepth = 0
    last = 0
    for i, ch in enumerate(m):
        if ch in '([{':
            depth += 1
        elif ch in ')]}':
            depth -= 1
        elif ch == '<':
            adepth += 1
        elif ch == '>' and adepth > 0 and not (i > 0 and m[i - 1] in '-='):
            adepth -= 1
        elif ch == ',' and depth == 0 and adepth == 0:
            parts.append(s[last:i])
            last = i + 1
    parts.append(s[last:])
    return parts


class Extracted:
    def __init__(self):
        self.items = []  # dicts: kind, source, selector, sha, lines(start,end in unit), name
        self.rewrites = []
        self.placeholders = {}  # name -> list of binder names (extract_arm `bind`)


def _parse_path(spec):
    # split on `::` at angle-bracket depth 0 only (an impl selector may name `TyEnvT<su::TermId>`); a `/regex/` part is kept whole
    parts, cur, depth, i, in_rx = [], '', 0, 0, False
    while i < len(spec):
        ch = spec[i]
        if ch == '/' and (in_rx or re.search(r'(?:arm|through|if)\s*$', cur)):
            in_rx = not in_rx
        if not in_rx:
            if ch == '<':
                depth += 1
            elif ch == '>' and depth > 0:
                depth -= 1
            if depth == 0 and spec.startswith('::', i):
                parts.append(cur.strip())
                cur = ''
                i += 2
                continue
        cur += ch
        i += 1
    parts.append(cur.strip())
    # re-join `impl A for B` that might contain '::'? selectors never contain '::' in our use
    return parts[0], parts[1:]


def extract_type(repo, spec, ex):
    keep = None
    m = re.search(r'\n\s*derive\s+(.+)$', spec.strip())
    if m:
        keep = m.group(1).strip()     # R1 exception: re-emit `#[derive(<listed traits>)]` (needed when a body formats the type)
        spec = spec.strip()[:m.start()]
    rel, sels = _parse_path(spec)
    f = _file(repo, rel)
    kind, name, istart, hend, iend = f.locate(sels)
    text = f.src[istart:iend]
    msk = f.msk[istart:iend]
    text = rsscan.strip_attributes(text, msk)
    text = _pubify_item(text)
    text = _pubify_fields(text, kind)
    if keep:
        orig = f.src[max(0, istart - 400):istart] + f.src[istart:iend]
        for tr in [x.strip() for x in keep.split(',')]:
            if tr == 'Structural':
                # Verus marker: `==` is structural. Emitted only if the source derives BOTH PartialEq and Eq (then it is, by construction).
                pre = f.src[max(0, istart - 400):istart]
                if not (re.search(r'#\[derive\([^)]*\bPartialEq\b', pre) and re.search(r'#\[derive\([^)]*\bEq\b', pre)):
                    raise ExtractError(f'{spec}: Structural needs derived PartialEq + Eq in the source')
                continue
            if not re.search(r'#\[derive\([^)]*\b' + re.escape(tr) + r'\b', f.src[max(0, istart - 400):istart]):
                raise ExtractError(f'{spec}: source item does not derive {tr}')
        text = f'#[derive({keep})]\n' + text
    ex.items.append(dict(kind=kind, source=rel, selector=' :: '.join(sels), sha=_sha(f.src[istart:iend]), name=name))
    return text


def extract_macro(repo, spec, ex):
    rel, sels = _parse_path(spec)
    f = _file(repo, rel)
    kind, name, istart, hend, iend = f.locate(sels)
    text = f.src[istart:iend]
    ex.items.append(dict(kind='macro', source=rel, selector=' :: '.join(sels), sha=_sha(text), name=name))
    return f'/*@@BODY {name}*/' + text + '/*@@END*/'


def _fn_parts(f, istart, hend, iend):
    """Split a fn item into (signature_text, ret_type or None, sig_before_ret, where_clause, body_text)."""
    sig = f.src[istart:hend]
    sigm = f.msk[istart:hend]
    body = f.src[hend:iend]
    # locate parameter list: first '(' after the name (skip generics)
    k = sigm.find('fn')
    p = k
    depth = 0
    while p < len(sigm):
        ch = sigm[p]
        if ch == '<':
            depth += 1
        elif ch == '>' and depth > 0 and sigm[p - 1] not in '-=':
            depth -= 1
        elif ch == '(' and depth == 0:
            break
        p += 1
    if p >= len(sigm):
        raise ExtractError('cannot find parameter list')
    pc = rsscan.match_close(sigm, p)
    rest = sig[pc + 1:]
    restm = sigm[pc + 1:]
    wm = re.search(r'\bwhere\b', restm)
    where = ''
    if wm:
        where = rest[wm.start():].rstrip()
        rest = rest[:wm.start()]
        restm = restm[:wm.start()]
    am = restm.find('->')
    ret = None
    if am >= 0:
        ret = rest[am + 2:].strip()
    head = sig[:pc + 1]
    return head, ret, where, body


def _apply_closures(body, closures, ex, label):
    """R3 for closure literals: splice `-> (name: T) requires .. ensures ..` between the parameter list and the block body of the k-th
    closure literal with a block body (`|params| { .. }`) of the function; the closure's text is unchanged."""
    if not closures:
        return body
    m = rsscan.mask(body)
    found = [x for x in re.finditer(r'\|[^|\n]*\|\s*\{', m)]
    out = body
    for k in sorted(closures, reverse=True):
        if k >= len(found):
            raise ExtractError(f'{label}: closure #{k} not found (function has {len(found)} block-bodied closures) -- lost anchor')
        pos = found[k].end() - 1
        out = out[:pos] + closures[k].rstrip() + '\n' + out[pos:]
        ex.rewrites.append(f'{label}: contract clauses spliced at closure literal #{k} (R3)')
    return out


def _apply_loops(body, loops_spec, break_to_return, proofs, ex, label, ret_type=None, desugar_for=None):
    """body is `{ ... }` text. Returns rewritten body."""
    inserts = []  # (pos, text)
    m = rsscan.mask(body)
    loops = rsscan.find_loops(m, 0, len(m))
    desugar_for = desugar_for or {}
    for k, itname in desugar_for.items():
        # R12: `for PAT in EXPR { BODY }` -> `{ let mut it = EXPR; loop <clauses> { match it.next() { Some(PAT) => { BODY } None => break, } } }`
        if k >= len(loops) or loops[k][0] != 'for':
            raise ExtractError(f'{label}: desugar_for {k}: no such `for` loop -- lost anchor')
        kw, kwpos, bopen, bclose = loops[k]
        hdr_m = m[kwpos:bopen]
        hdr = body[kwpos:bopen]
        # split `for PAT in EXPR` at the first ` in ` at bracket depth 0
        depth = 0
        cut = None
        i = 3
        while i < len(hdr_m):
            ch = hdr_m[i]
            if ch in '([{':
                depth += 1
            elif ch in ')]}':
                depth -= 1
            elif depth == 0 and re.match(r'\sin\s', hdr_m[i:i + 4]):
                cut = i
                break
            i += 1
        if cut is None:
            raise ExtractError(f'{label}: desugar_for {k}: cannot split the loop header')
        pat = hdr[3:cut].strip()
        expr = hdr[cut + 4:].strip()
        inner_m = m[bopen + 1:bclose]
        if re.search(r"\b(break|continue)\s+'", inner_m):
            raise ExtractError(f'{label}: desugar_for {k}: labelled break/continue inside the loop')
        clauses = loops_spec.get(k, '')
        inserts.append((('replace', kwpos, bopen + 1), f'{{ let mut {itname} = {expr};\nloop\n{clauses.rstrip()}\n{{ match {itname}.next() {{ Some({pat}) => {{'))
        inserts.append((('replace', bclose, bclose + 1), '} None => break, } } }'))
        ex.rewrites.append(f'{label}: `for {pat} in {expr}` desugared to `let mut {itname} = {expr}; loop {{ match {itname}.next() {{ Some({pat}) => .., None => break }} }}` (R12)')
    for k, clauses in loops_spec.items():
        if k in desugar_for:
            continue
        if k >= len(loops):
            raise ExtractError(f'{label}: loop #{k} not found (function has {len(loops)} loops) -- lost anchor')
        kw, kwpos, bopen, bclose = loops[k]
        inserts.append((bopen, '\n' + clauses.rstrip() + '\n'))
    if break_to_return:
        if not loops:
            raise ExtractError(f'{label}: break_value: no loop')
        kw, kwpos, bopen, bclose = loops[0]
        if kw != 'loop':
            raise ExtractError(f'{label}: break_value needs a `loop`')
        # side condition 1: the loop is the whole tail expression of the body and nothing precedes it
        tail = m[bclose + 1:].strip()
        head = m[1:kwpos].strip()
        if tail != '}' or head != '':
            raise ExtractError(f'{label}: rule R4 side condition failed: loop is not the sole/tail expression of the function body')
        # side condition 2: no nested loop, no closure (every `break` then belongs to this loop)
        inner = m[bopen + 1:bclose]
        if re.search(r'\b(loop|while|for)\b', inner) or _has_closure(inner):
            raise ExtractError(f'{label}: rule R4 side condition failed: nested loop or closure inside the loop')
        if re.search(r'\bbreak\b\s*[;,}]', inner) or re.search(r"\bbreak\s+'", inner):
            raise ExtractError(f'{label}: rule R4: value-less or labelled break present')
        for bm in re.finditer(r'\bbreak\b', inner):
            a = bopen + 1 + bm.start()
            # the value expression extends to the first `,` or `;` at depth 0 (or the enclosing close bracket)
            k = a + 5
            depth = 0
            while k < bclose:
                ch = m[k]
                if ch in '([{':
                    depth += 1
                elif ch in ')]}':
                    if depth == 0:
                        break
                    depth -= 1
                elif depth == 0 and ch in ',;':
                    break
                k += 1
            val = body[a + 5:k].strip()
            inserts.append((('replace', a, k), '{ __ret = ' + val + '; break; }'))
            ex.rewrites.append(f'{label}: `break {val}` -> `{{ __ret = {val}; break; }}`')
        if ret_type is None:
            raise ExtractError(f'{label}: rule R4 needs a return type')
        inserts.append((kwpos, f'let __ret: {ret_type};\n'))
        inserts.append((bclose + 1, '\n__ret\n'))
    for rx, text in proofs:
        # anchor: first line in body whose source text matches rx
        found = None
        off = 0
        for line in body.splitlines(keepends=True):
            if re.search(rx, line):
                found = off + (len(line) - len(line.lstrip()))
                break
            off += len(line)
        if found is None:
            raise ExtractError(f'{label}: proof anchor /{rx}/ not found -- lost anchor')
        inserts.append((found, text.rstrip() + '\n'))
    # apply from the back
    out = body

    def key(x):
        p = x[0]
        return p[1] if isinstance(p, tuple) else p
    for pos, text in sorted(inserts, key=key, reverse=True):
        if isinstance(pos, tuple):
            _, a, b = pos
            out = out[:a] + text + out[b:]
        else:
            out = out[:pos] + text + out[pos:]
    return out


def _post_as_loop_ensures(contract, retname):
    """The function's `ensures` clauses restated for the point of a `break`: r -> __ret, final(self) -> self."""
    m = re.search(r'\bensures\b(.*?)(?:\bdecreases\b|\Z)', contract, re.S)
    if not m:
        return ''
    t = m.group(1)
    t = re.sub(r'\bfinal\(self\)', 'self', t)
    t = re.sub(r'\b' + re.escape(retname) + r'\b', '__ret', t)
    return t.strip() + '\n'


_CLOSURE = re.compile(r'\|\s*((?:mut\s+)?&?\s*[a-z_][a-z0-9_]*(?:\s*:\s*[^|,]+)?(?:\s*,\s*(?:mut\s+)?&?\s*[a-z_][a-z0-9_]*(?:\s*:\s*[^|,]+)?)*)?\s*\|')


def _has_closure(inner_mask):
    """True if the (masked) text contains a closure `|params| body`. Or-patterns (`A(_) | B(_)`, `X::A | X::B`) and the
    leading bars of match arms are not closures: a closure's parameter list is empty or lower-case binders only, and it is
    preceded by `(`, `,`, `=`, `{`, `;` or a keyword, never by `)` / an identifier / a literal."""
    for m in _CLOSURE.finditer(inner_mask):
        pre = inner_mask[:m.start()].rstrip()
        if not pre:
            continue
        last = pre[-1]
        if last in '(,=;' or pre.endswith('move') or pre.endswith('return'):
            # `{`/newline-leading bars are match arms; `(`, `,`, `=` introduce expressions
            return True
    return False


def _closure_probe(inner):
    return inner


def _param_names(head):
    """Names of the parameters in a function signature text (receiver skipped; only simple `name: T` / `mut name: T` patterns)."""
    m = rsscan.mask(head)
    o = m.find('(')
    if o < 0:
        return []
    c = rsscan.match_close(m, o)
    names = []
    for part in _split_top(head[o + 1:c]):
        part = part.strip()
        if not part or re.match(r'^(&\s*(\'\w+\s+)?)?(mut\s+)?self\b', part):
            continue
        pm = re.match(r'^(?:mut\s+)?((?:r#)?\w+)\s*:', part)
        names.append(pm.group(1) if pm else '_')
    return names


def extract_fn(repo, header, contract, ex, body_only=False):
    lines = [l.strip() for l in header.strip().splitlines()]
    spec = lines[0]
    opts = dict(ret='r', name=None, break_to_return=False, self_ty=None, loops={}, proofs=[], nosig=False, sig_sub=[])
    cur = None
    for l in lines[1:]:
        if not l:
            continue
        m = re.match(r'^loop\s+(\d+)\s*:\s*(.*)$', l)
        if m:
            cur = ('loop', int(m.group(1)))
            opts['loops'][cur[1]] = m.group(2) + '\n'
            continue
        m = re.match(r'^proof\s+/(.*)/\s*:\s*(.*)$', l)
        if m:
            opts['proofs'].append([m.group(1), m.group(2) + '\n'])
            cur = ('proof', len(opts['proofs']) - 1)
            continue
        m = re.match(r'^assoc\s+(\w+)$', l)
        if m:
            opts.setdefault('assoc', []).append(m.group(1))
            cur = None
            continue
        m = re.match(r'^closure\s+(\d+)\s*:\s*(.*)$', l)
        if m:
            opts.setdefault('closures', {})[int(m.group(1))] = m.group(2) + '\n'
            cur = ('closure', int(m.group(1)))
            continue
        m = re.match(r'^desugar_for\s+(\d+)\s+(\w+)$', l)
        if m:
            opts.setdefault('desugar_for', {})[int(m.group(1))] = m.group(2)
            cur = None
            continue
        m = re.match(r'^(ret|name|self_ty)\s+(.+)$', l)
        if m:
            opts[m.group(1)] = m.group(2).strip()
            cur = None
            continue
        if l in ('break_value', 'break_to_return'):
            opts['break_to_return'] = True
            cur = None
            continue
        m = re.match(r'^vec_as_slice\s+(\w+)$', l)
        if m:
            opts.setdefault('vec_as_slice', []).append(m.group(1))
            cur = None
            continue
        if l == 'weaken_thunk_patterns':
            opts['weaken_thunk'] = True
            cur = None
            continue
        if l == 'nopub':
            opts['nopub'] = True
            cur = None
            continue
        if l == 'plain':
            opts['plain'] = True
            cur = None
            continue
        if l == 'nosig':
            opts['nosig'] = True
            cur = None
            continue
        if cur and cur[0] == 'closure':
            opts['closures'][cur[1]] += l + '\n'
        elif cur and cur[0] == 'loop':
            opts['loops'][cur[1]] += l + '\n'
        elif cur and cur[0] == 'proof':
            opts['proofs'][cur[1]][1] += l + '\n'
        else:
            raise ExtractError(f'bad directive line: {l!r}')
    rel, sels = _parse_path(spec)
    f = _file(repo, rel)
    try:
        kind, name, istart, hend, iend = f.locate(sels)
    except ScanError as e:
        raise ExtractError(f'lost anchor: {rel} :: {" :: ".join(sels)}: {e}')
    if kind != 'fn' or f.msk[hend] != '{':
        raise ExtractError(f'{spec}: not a function with a body')
    label = f'{rel}::{"::".join(sels)}'
    head, ret, where, body = _fn_parts(f, istart, hend, iend)
    raw = f.src[istart:iend]
    ex.items.append(dict(kind='fn', source=rel, selector=' :: '.join(sels), sha=_sha(raw), name=opts['name'] or name,
                         loc=raw.count('\n') + 1))
    if body_only or opts['nosig']:
        body2 = _apply_loops(body, opts['loops'], opts['break_to_return'], opts['proofs'], ex, label, ret_type=ret)
        return (contract or '') + body2
    head = rsscan.strip_attributes(head, rsscan.mask(head)).lstrip()
    if not opts.get('nopub'):
        head = _pubify_item(head)
    if opts['name']:
        head = re.sub(r'\bfn\s+' + re.escape(name) + r'\b', 'fn ' + opts['name'], head, count=1)
    if opts.get('weaken_thunk'):
        # R11: the sub-pattern `ZValue::Thunk(_)` (wildcard payload: it can only occur in a pattern) becomes `_`. The function then
        # accepts non-thunk values in continuation positions and treats them exactly as it treats thunks (it only clones and forces
        # them), so harnesses can use distinguishable marker values where CBMC cannot handle a real EnvThunk.
        body, n_w = re.subn(r'\b(?:ZValue|SemValue)::Thunk\(\s*(?:_|\.\.)\s*\)', '_', body)
        if n_w == 0:
            raise ExtractError(f'{label}: R11: no `ZValue::Thunk(_)` sub-pattern found')
        ex.rewrites.append(f'{label}: {n_w} sub-pattern(s) `ZValue::Thunk(_)` weakened to `_` (R11)')
    for pn in opts.get('vec_as_slice', []):
        # R9: parameter `p: Vec<T>` becomes `p: &[T]` -- only if every use of p in the body is `p.as_slice()` or `&p`
        pm = re.search(r'\b' + re.escape(pn) + r'\s*:\s*Vec<', head)
        if not pm:
            raise ExtractError(f'{label}: R9: parameter {pn}: Vec<..> not found')
        uses = [u for u in re.finditer(r'\b' + re.escape(pn) + r'\b', rsscan.mask(body))]
        bm = rsscan.mask(body)
        for u in uses:
            after = bm[u.end():u.end() + 12]
            before = bm[max(0, u.start() - 1):u.start()]
            if not (after.startswith('.as_slice()') or before == '&'):
                raise ExtractError(f'{label}: R9 side condition failed: `{pn}` is used other than as `{pn}.as_slice()` / `&{pn}`')
        # find the closing '>' of Vec<...>
        st = pm.end()
        depth = 1
        k = st
        while k < len(head) and depth:
            if head[k] == '<':
                depth += 1
            elif head[k] == '>':
                depth -= 1
            k += 1
        inner = head[st:k - 1]
        head = head[:pm.start()] + f'{pn}: &[{inner}]' + head[k:]
        ex.rewrites.append(f'{label}: parameter `{pn}: Vec<{inner}>` -> `{pn}: &[{inner}]` (R9)')
    for an in opts.get('assoc', []):
        # R7: `Self::<Assoc>` in the signature is replaced by the definition `type <Assoc> = T;` copied from the same impl
        try:
            k2, n2, is2, he2, ie2 = f.locate(sels[:-1] + [f'type {an}'])
        except ScanError as e:
            raise ExtractError(f'lost anchor: associated type {an}: {e}')
        tdef = f.src[is2:ie2]
        tm = re.match(r'type\s+' + an + r'\s*=\s*(.*?);\s*$', tdef, re.S)
        if not tm:
            raise ExtractError(f'cannot read associated type {an}')
        if ret:
            ret = ret.replace(f'Self::{an}', tm.group(1))
        head = head.replace(f'Self::{an}', tm.group(1))
        ex.items.append(dict(kind='assoc-type', source=rel, selector=' :: '.join(sels[:-1] + [f'type {an}']), sha=_sha(tdef), name=an))
    if opts['self_ty']:
        head = re.sub(r'\bSelf\b', opts['self_ty'], head)
        if ret:
            ret = re.sub(r'\bSelf\b', opts['self_ty'], ret)
    # `$p<k>` in a contract stands for the name of the function's k-th parameter (receiver not counted): contracts stay valid when a
    # parameter is renamed
    pnames = _param_names(head)
    if contract and '$p' in contract:
        def _psub(m):
            k = int(m.group(1))
            if k >= len(pnames):
                raise ExtractError(f'{label}: contract mentions $p{k} but the function has {len(pnames)} parameters -- lost anchor')
            return pnames[k]
        contract = re.sub(r'\$p(\d+)', _psub, contract)
    loops_spec = dict(opts['loops'])
    post = _post_as_loop_ensures(contract or '', opts['ret'])
    for k in loops_spec:
        loops_spec[k] = loops_spec[k].replace('@post', post)
    body = _apply_closures(body, opts.get('closures'), ex, label)
    body2 = _apply_loops(body, loops_spec, opts['break_to_return'], opts['proofs'], ex, label, ret_type=ret, desugar_for=opts.get('desugar_for'))
    if opts['self_ty']:
        body2 = re.sub(r'\bSelf\b', opts['self_ty'], body2)
    sig = head
    if ret and opts.get('plain'):
        sig += f' -> {ret}'
    elif ret:
        sig += f' -> ({opts["ret"]}: {ret})'
    if where:
        sig += '\n' + where
    return sig + '\n' + (contract or '').rstrip() + '\n' + f'/*@@BODY {opts["name"] or name}*/' + body2 + '/*@@END*/'


def extract_let(repo, spec, ex):
    """`<file> :: ... :: fn f :: let <name>` -> the initializer expression of the first `let <name> = <expr>;` in f's body (rule R8)."""
    rel, sels = _parse_path(spec)
    f = _file(repo, rel)
    m = re.match(r'let\s+(\w+)$', sels[-1])
    if not m:
        raise ExtractError(f'bad let selector {sels[-1]!r}')
    var = m.group(1)
    try:
        kind, name, istart, hend, iend = f.locate(sels[:-1])
    except ScanError as e:
        raise ExtractError(f'lost anchor: {rel} :: {" :: ".join(sels[:-1])}: {e}')
    body_m = f.msk[hend:iend]
    lm = re.search(r'\blet\s+(?:mut\s+)?' + re.escape(var) + r'\s*(?::[^=;]+)?=(?!=)', body_m)
    if not lm:
        raise ExtractError(f'lost anchor: `let {var} =` not found in {" :: ".join(sels[:-1])}')
    k = lm.end()
    depth = 0
    while k < len(body_m):
        ch = body_m[k]
        if ch in '([{':
            depth += 1
        elif ch in ')]}':
            depth -= 1
        elif ch == ';' and depth == 0:
            break
        k += 1
    expr = f.src[hend + lm.end():hend + k].strip()
    ex.items.append(dict(kind='let-expr', source=rel, selector=' :: '.join(sels), sha=_sha(expr), name=f'{name}::{var}'))
    return f'/*@@BODY {name}_{var}*/' + expr + '/*@@END*/'


def extract_arm(repo, header, ex):
    """`<file> :: ... :: fn f :: arm /<regex on the arm pattern>/` + options -> the block of that match arm (rule R10).
    options:  loop <k>: <clauses>   (as for fn; loops are numbered inside the arm)
              name_loop_var <k> <ident>   give the `_` pattern of the k-th `for` loop a name (so invariants can mention it)"""
    lines = [l.strip() for l in header.strip().splitlines()]
    rel, sels = _parse_path(lines[0])
    m = re.match(r'arm\s+/(.*)/$', sels[-1])
    if not m:
        raise ExtractError(f'bad arm selector {sels[-1]!r}')
    rx = m.group(1)
    loops = {}
    names = {}
    proofs = []
    cur = None
    bind_name = None
    closures = {}
    for l in lines[1:]:
        if not l:
            continue
        lm = re.match(r'^loop\s+(\d+)\s*:\s*(.*)$', l)
        nm = re.match(r'^name_loop_var\s+(\d+)\s+(\w+)$', l)
        pm = re.match(r'^proof\s+/(.*)/\s*:\s*(.*)$', l)
        bm_ = re.match(r'^bind\s+(\w+)$', l)
        if bm_:
            bind_name = bm_.group(1)
            cur = None
            continue
        cm_ = re.match(r'^closure\s+(\d+)\s*:\s*(.*)$', l)
        if cm_:
            closures[int(cm_.group(1))] = cm_.group(2) + '\n'
            cur = ('closure', int(cm_.group(1)))
            continue
        if isinstance(cur, tuple) and cur[0] == 'closure' and not lm and not nm and not pm:
            closures[cur[1]] += l + '\n'
            continue
        if pm:
            proofs.append([pm.group(1), pm.group(2) + '\n'])
            cur = ('proof', len(proofs) - 1)
        elif isinstance(cur, tuple) and cur[0] == 'proof' and not lm and not nm:
            proofs[cur[1]][1] += l + '\n'
        elif lm:
            cur = int(lm.group(1))
            loops[cur] = lm.group(2) + '\n'
        elif nm:
            names[int(nm.group(1))] = nm.group(2)
            cur = None
        elif cur is not None:
            loops[cur] += l + '\n'
        else:
            raise ExtractError(f'bad arm directive line {l!r}')
    f = _file(repo, rel)
    try:
        kind, name, istart, hend, iend = f.locate(sels[:-1])
    except ScanError as e:
        raise ExtractError(f'lost anchor: {rel} :: {" :: ".join(sels[:-1])}: {e}')
    body_m = f.msk[hend:iend]
    body = f.src[hend:iend]
    found = None
    for am in re.finditer(r'(?m)^\s*\|\s*([^\n]*?)=>\s*\{', body_m):
        pat = body[am.start(1):am.end(1)]
        if re.search(rx, pat):
            if found is not None:
                raise ExtractError(f'ambiguous arm /{rx}/ in {" :: ".join(sels[:-1])}')
            found = am
    if found is None:
        raise ExtractError(f'lost anchor: arm /{rx}/ not found in {" :: ".join(sels[:-1])}')
    o = found.end() - 1
    c = rsscan.match_close(body_m, o)
    block = body[o:c + 1]
    label = f'{rel}::{"::".join(sels)}'
    if bind_name:
        # `$<bind_name>.<k>` anywhere in the template stands for the k-th variable the arm's pattern binds (so the wrapper function's
        # parameters and its contract follow a renamed binder)
        pat_text = body[found.start(1):found.end(1)]
        binders = [b for b in re.findall(r'(?<![:\w])([a-z_][a-z0-9_]*)\b(?!\s*(?:::|\(|\{))', pat_text) if b not in ('mut', 'ref', 'box', '_', 'if')]
        ex.placeholders[bind_name] = binders
    # name `_` loop variables
    bm = rsscan.mask(block)
    lps = rsscan.find_loops(bm, 0, len(bm))
    inserts = []
    for k, ident in names.items():
        if k >= len(lps) or lps[k][0] != 'for':
            raise ExtractError(f'{label}: name_loop_var {k}: no such `for` loop')
        kw, kwpos, bopen, bclose = lps[k]
        um = re.match(r'for\s+_\s+in\b', bm[kwpos:])
        if not um:
            raise ExtractError(f'{label}: name_loop_var {k}: loop pattern is not `_`')
        inserts.append((('replace', kwpos, kwpos + um.end()), f'for {ident} in'))
        ex.rewrites.append(f'{label}: unused loop pattern `_` named `{ident}` (R3)')
    out = block
    for pos, text in sorted(inserts, key=lambda x: x[0][1], reverse=True):
        _, a, b = pos
        out = out[:a] + text + out[b:]
    out = _apply_closures(out, closures, ex, label)
    out = _apply_loops(out, loops, False, proofs, ex, label)
    ex.items.append(dict(kind='match-arm', source=rel, selector=' :: '.join(sels), sha=_sha(block), name=f'{name}_arm'))
    return f'/*@@BODY {name}_arm*/' + out + '/*@@END*/'


def extract_lalrpop_action(repo, spec, ex):
    """spec: `<file> :: rule <Rule> :: action <k>` -> the k-th alternative's action expression of the rule.
    Handles both `Rule: T = { alt, alt };` and the single-alternative form `Rule: T = symbols => action;`."""
    rel, sels = _parse_path(spec)
    p = os.path.join(repo, rel)
    if not os.path.exists(p):
        raise ExtractError(f'lost anchor: {rel}')
    src = open(p, encoding='utf-8').read()
    msk = rsscan.mask(src)
    rm = re.match(r'rule\s+(\S+)', sels[0])
    am = re.match(r'action\s+(\d+)', sels[1])
    rule, k = rm.group(1), int(am.group(1))
    hm = re.search(r'(?m)^(?:pub\s+)?' + re.escape(rule) + r'\s*(?:<[^>]*>)?\s*:\s*([^=]+?)\s*=(?![=>])\s*', msk)
    if not hm:
        raise ExtractError(f'lost anchor: lalrpop rule {rule}')
    ty = src[hm.start(1):hm.end(1)].strip()
    pos = hm.end()
    if msk[pos] == '{':
        bopen = pos
        bclose = rsscan.match_close(msk, bopen)
        a0, b0 = bopen + 1, bclose
    else:
        # single alternative: up to the `;` at bracket depth 0
        depth = 0
        q = pos
        while q < len(msk):
            ch = msk[q]
            if ch in '([{':
                depth += 1
            elif ch in ')]}':
                depth -= 1
            elif ch == ';' and depth == 0:
                break
            q += 1
        a0, b0 = pos, q
    body = src[a0:b0]
    bm = msk[a0:b0]
    alts = []
    depth = 0
    adepth = 0
    last = 0
    for i, ch in enumerate(bm):
        if ch in '([{':
            depth += 1
        elif ch in ')]}':
            depth -= 1
        elif ch == '<' and not (i > 0 and bm[i - 1] in '=') and depth == 0:
            adepth += 1
        elif ch == '>' and adepth > 0 and not (i > 0 and bm[i - 1] in '=-') and depth == 0:
            adepth -= 1
        elif ch == ',' and depth == 0 and adepth == 0:
            alts.append((last, i))
            last = i + 1
    if bm[last:].strip():
        alts.append((last, len(bm)))
    if k >= len(alts):
        raise ExtractError(f'lalrpop rule {rule}: action {k} not found ({len(alts)} alternatives)')
    a, b = alts[k]
    alt = body[a:b]
    altm = bm[a:b]
    arrow = altm.find('=>')
    if arrow < 0:
        raise ExtractError(f'lalrpop rule {rule} alt {k}: no action')
    fallible = altm[arrow + 2:arrow + 3] == '?'
    symbols = alt[:arrow].strip()
    action = alt[arrow + (3 if fallible else 2):].strip()
    nm = re.search(r'<\s*(?:mut\s+)?([A-Za-z_][A-Za-z0-9_]*)\s*:', symbols)
    param = nm.group(1) if nm else 'tok'
    ex.items.append(dict(kind='lalrpop-action', source=rel, selector=f'rule {rule} :: action {k}', sha=_sha(alt), name=f'{rule}_action{k}',
                         symbols=symbols, fallible=fallible, result_type=ty))
    return dict(symbols=symbols, action=action.replace('<>', param), fallible=fallible, result_type=ty, param=param)


_DIR = re.compile(r'/\*@(type|macro\?|macro|fn|body|expr|action|let|arm|prefix)(?![A-Za-z])(.*?)@\*/', re.S)


_INC = re.compile(r'/\*@include\s+(\S+)\s*::\s*(\S+)\s*\.\.\s*(\S+)\s*@\*/')


def _expand_includes(template_text):
    """`/*@include <unit>/<file> :: BEGIN-MARK .. END-MARK @*/` -> the text of that other TEMPLATE between the two marker comments
    (`// @@BEGIN-MARK` / `// @@END-MARK`), so two units can share specification text and contracts without copies drifting apart."""
    units_dir = os.path.join(os.path.dirname(os.path.dirname(os.path.abspath(__file__))), 'units')

    def sub(m):
        t = open(os.path.join(units_dir, m.group(1))).read()
        a = t.find('// @@' + m.group(2))
        b = t.find('// @@' + m.group(3))
        if a < 0 or b < 0 or b < a:
            raise ExtractError(f'include: markers {m.group(2)}..{m.group(3)} not found in {m.group(1)}')
        return t[t.index('\n', a) + 1:b]
    return _INC.sub(sub, template_text)


def _expand_registry(repo, template_text):
    """`$REGISTRY{crate}` -> the source directory of the version of `crate` that /repo/Cargo.lock pins, in the local cargo registry
    (third-party code the repository runs; nothing is fetched). Lost anchor if the lock file or the directory is missing."""
    def sub(m):
        name = m.group(1)
        lock = os.path.join(repo, 'Cargo.lock')
        if not os.path.exists(lock):
            raise ExtractError('lost anchor: Cargo.lock')
        vm = re.search(r'\[\[package\]\]\s*name = "' + re.escape(name) + r'"\s*version = "([^"]+)"', open(lock).read())
        if not vm:
            raise ExtractError(f'lost anchor: {name} is not in Cargo.lock')
        import glob
        homes = [os.environ['CARGO_HOME']] if os.environ.get('CARGO_HOME') else []
        homes += [os.path.join(os.path.expanduser('~'), '.cargo'), '/root/.cargo']
        cands = sorted({c for h in homes for c in glob.glob(os.path.join(h, 'registry', 'src', '*', f'{name}-{vm.group(1)}'))})
        if not cands:
            raise ExtractError(f'lost anchor: source of {name} {vm.group(1)} is not in the cargo registry')
        return cands[0]
    return re.sub(r'\$REGISTRY\{([\w-]+)\}', sub, template_text)


def extract_prefix(repo, header, ex):
    """`<file> :: ... :: fn f :: through /<regex>/` -> the text of f's body from its opening brace through the end of the first `if` block whose
    header matches the regex (rule R13). Side condition: nothing but logging-macro statements (`debug!(..);`) precedes that `if`."""
    lines = [l.strip() for l in header.strip().splitlines()]
    rel, sels = _parse_path(lines[0])
    m = re.match(r'through\s+/(.*)/$', sels[-1])
    if not m:
        raise ExtractError(f'bad prefix selector {sels[-1]!r}')
    rx = m.group(1)
    f = _file(repo, rel)
    try:
        kind, name, istart, hend, iend = f.locate(sels[:-1])
    except ScanError as e:
        raise ExtractError(f'lost anchor: {rel} :: {" :: ".join(sels[:-1])}: {e}')
    body = f.src[hend:iend]
    bm = f.msk[hend:iend]
    im = re.search(r'\bif\b[^{]*\{', bm)
    found = None
    for im in re.finditer(r'\bif\b[^{;]*\{', bm):
        if re.search(rx, body[im.start():im.end()]):
            found = im
            break
    if found is None:
        raise ExtractError(f'lost anchor: no `if` matching /{rx}/ in {" :: ".join(sels[:-1])}')
    before = bm[1:found.start()]
    rest = re.sub(r'\bdebug!\s*\((?:[^()]|\([^()]*\))*\)\s*;', '', before)
    if rest.strip():
        raise ExtractError(f'{rel}::{"::".join(sels)}: R13 side condition failed: statements other than logging precede the guard: {rest.strip()[:60]!r}')
    close = rsscan.match_close(bm, found.end() - 1)
    text = body[1:close + 1]
    ex.items.append(dict(kind='fn-prefix', source=rel, selector=' :: '.join(sels), sha=_sha(text), name=f'{name}_guard', loc=text.count('\n') + 1))
    ex.rewrites.append(f'{rel}::{"::".join(sels)}: only the leading guard of the function body is extracted (R13); the rest of the body is not verified')
    return f'/*@@BODY {name}_guard*/' + text + '/*@@END*/'


def build_unit(repo, template_text):
    """Returns (unit_text, Extracted)."""
    template_text = _expand_includes(template_text)
    template_text = _expand_registry(repo, template_text)
    ex = Extracted()
    out = []
    pos = 0
    while True:
        m = _DIR.search(template_text, pos)
        if not m:
            out.append(template_text[pos:])
            break
        out.append(template_text[pos:m.start()])
        kind, arg = m.group(1), m.group(2)
        pos = m.end()
        if kind == 'type':
            out.append(extract_type(repo, arg.strip(), ex))
        elif kind == 'macro':
            out.append(extract_macro(repo, arg.strip(), ex))
        elif kind == 'macro?':
            # optional helper macro: copied if it (still) exists; code that needs it then fails to compile (exit 2), code that
            # no longer uses it is unaffected
            try:
                out.append(extract_macro(repo, arg.strip(), ex))
            except (ExtractError, ScanError):
                out.append('// (macro not present in the current tree)')
        elif kind == 'body':
            out.append(extract_fn(repo, arg, None, ex, body_only=True))
        elif kind == 'let':
            out.append(extract_let(repo, arg.strip(), ex))
        elif kind == 'arm':
            out.append(extract_arm(repo, arg, ex))
        elif kind == 'prefix':
            out.append(extract_prefix(repo, arg, ex))
        elif kind == 'expr':
            d = extract_lalrpop_action(repo, arg.strip(), ex)
            out.append(d['action'])
        elif kind == 'action':
            # /*@action <file> :: rule R :: action k \n fn <name> \n ret <type> \n [symbols <regex the alternative's symbols must match>] @*/ contract /*@end*/   (rule R5)
            e = template_text.find('/*@end*/', pos)
            if e < 0:
                raise ExtractError('missing /*@end*/')
            contract = template_text[pos:e]
            pos = e + len('/*@end*/')
            lines = [l.strip() for l in arg.strip().splitlines() if l.strip()]
            d = extract_lalrpop_action(repo, lines[0], ex)
            o = dict((l.split(None, 1) + [''])[:2] for l in lines[1:])
            if 'symbols' in o and not re.search(o['symbols'], d['symbols']):
                raise ExtractError(f"lost anchor: {lines[0]}: symbols `{d['symbols']}` do not match /{o['symbols']}/")
            ex.items[-1]['name'] = o['fn']
            ex.items[-1]['kind'] = 'fn'
            contract = contract.replace('$param', d['param'])   # the contract names the token parameter neutrally
            if 'plain' in o or any(l == 'plain' for l in lines[1:]):
                out.append(f"pub fn {o['fn']}({d['param']}: &str) -> {o['ret']}\n{{\n    {d['action']}\n}}")
            else:
                out.append(f"pub fn {o['fn']}({d['param']}: &str) -> (r: {o['ret']})\n{contract.rstrip()}\n{{\n    {d['action']}\n}}")
        elif kind == 'fn':
            e = template_text.find('/*@end*/', pos)
            if e < 0:
                raise ExtractError('missing /*@end*/')
            contract = template_text[pos:e]
            pos = e + len('/*@end*/')
            text = extract_fn(repo, arg, contract, ex)
            out.append(text)
    unit = ''.join(out)
    if ex.placeholders:
        def _bsub(m):
            nm, k = m.group(1), int(m.group(2))
            if nm not in ex.placeholders:
                return m.group(0)
            if k >= len(ex.placeholders[nm]):
                raise ExtractError(f'placeholder ${nm}.{k}: the arm binds only {ex.placeholders[nm]} -- lost anchor')
            return ex.placeholders[nm][k]
        unit = re.sub(r'\$(\w+)\.(\d+)', _bsub, unit)
    # record line spans of each extracted fn in the unit for diagnostics mapping (done by caller via markers)
    return unit, ex
