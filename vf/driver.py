"""Driver: property -> units -> obligations -> verdict, evidence, VIOLATION / KNOWN-FINDING lines.

Exit codes: 0 property held on everything decided; 1 violation (a named obligation that the verifier does not
discharge on the current tree, with a replayed input where one is found); 2 undecided / infrastructure
(lost anchor, construct outside the verifier's subset, resource limit, build failure) -- never an alarm.
"""
import concurrent.futures as cf
import hashlib
import json
import os
import re
import shutil
import subprocess
import sys
import time

from . import extract, verus, kani, witness, registry, callsite

VERIF = os.path.dirname(os.path.dirname(os.path.abspath(__file__)))
REPO = os.environ.get('VF_REPO', '/repo')
BUILD = os.path.join(VERIF, 'build')
ENV = dict(os.environ, CARGO_NET_OFFLINE='true', CARGO_TERM_COLOR='never', RUST_BACKTRACE='0')


def log(*a):
    print(*a, file=sys.stderr, flush=True)


def load_known():
    known, fixed = [], []
    p = os.path.join(VERIF, 'known_findings.txt')
    if os.path.exists(p):
        for line in open(p):
            line = line.strip()
            if line.startswith('known:'):
                d = dict(re.findall(r'(\w+)=("(?:[^"\\]|\\.)*"|\S+)', line[6:]))
                for k in list(d):
                    if d[k].startswith('"'):
                        d[k] = json.loads(d[k])
                d['_line'] = line
                known.append(d)
            elif line.startswith('fixed:'):
                fixed.append(line)
    return known, fixed


def scan_assumptions(text):
    """Mechanical scan of a generated unit for everything that is assumed rather than proved."""
    pats = [r'\bassume\s*\(', r'\badmit\s*\(', r'external_body', r'assume_specification', r'#\[verifier::external',
            r'kani::assume', r'kani::stub', r'\buninterp\b', r'#\[verifier::truncate\]', r'reject_recursive_types']
    found = []
    for i, line in enumerate(text.splitlines(), 1):
        code = line.split('//')[0]
        for p in pats:
            if re.search(p, code):
                found.append((i, re.sub(r'\\[bs]\*?|\\', '', p), line.strip()))
    return found


def build_replay():
    """(Re)build the native replay binary against /repo's current working tree."""
    rdir = os.path.join(VERIF, 'replay')
    lock_src = os.path.join(REPO, 'Cargo.lock')
    os.makedirs(BUILD, exist_ok=True)
    # work on a copy so that /verif/replay stays clean (Cargo.lock comes from /repo)
    wdir = os.path.join(BUILD, 'replay-crate')
    if os.path.exists(wdir):
        shutil.rmtree(wdir)
    shutil.copytree(rdir, wdir, ignore=shutil.ignore_patterns('target', 'Cargo.lock'))
    if os.path.exists(lock_src):
        shutil.copy(lock_src, os.path.join(wdir, 'Cargo.lock'))
    if REPO != '/repo':
        ct = open(os.path.join(wdir, 'Cargo.toml')).read().replace('"/repo/', '"' + REPO.rstrip('/') + '/')
        open(os.path.join(wdir, 'Cargo.toml'), 'w').write(ct)
    env = dict(ENV, CARGO_TARGET_DIR=os.path.join(BUILD, 'target'))
    t0 = time.time()
    p = subprocess.run(['cargo', 'build', '--offline', '--quiet'], cwd=wdir, env=env, stdout=subprocess.PIPE, stderr=subprocess.STDOUT, text=True)
    ok = p.returncode == 0
    return dict(ok=ok, wall_s=round(time.time() - t0, 1), out=p.stdout[-3000:], bin=os.path.join(BUILD, 'target', 'debug', 'vf-replay'))


def run_verus_unit(uname, ucfg, tier):
    udir = os.path.join(VERIF, 'units', uname)
    tpl = open(os.path.join(udir, ucfg.get('template', 'unit.rs.tpl'))).read()
    res = dict(unit=uname, backend='verus', status='ok', obligations=[], failed=[], assumptions=[], functions=[], canaries=[])
    try:
        text, ex = extract.build_unit(REPO, tpl)
    except (extract.ExtractError, extract.ScanError) as e:
        res.update(status='undecided', reason=f'extraction failed: {e}')
        return res
    os.makedirs(os.path.join(BUILD, 'units'), exist_ok=True)
    upath = os.path.join(BUILD, 'units', uname + '.rs')
    open(upath, 'w').write(text)
    res['unit_path'] = upath
    res['functions'] = ex.items
    res['rewrites'] = ex.rewrites
    fn_names = {i['name'] for i in ex.items if i['kind'] == 'fn'}
    census = verus.count_obligations(text, fn_names)
    res['census'] = {k: v for k, v in census.items() if k != 'labels'}
    scan = scan_assumptions(text)
    declared = ucfg.get('assumptions', [])
    undeclared = []
    for (ln, pat, line) in scan:
        if not any(re.search(a['match'], line) for a in declared):
            undeclared.append(f'line {ln}: {line}')
    res['assumptions'] = [a['id'] + ': ' + a['text'] for a in declared]
    res['assumption_sites'] = len(scan)
    if undeclared:
        res.update(status='undecided', reason='assumption without justification entry: ' + '; '.join(undeclared[:5]))
        return res
    r = verus.run(upath, rlimit=ucfg.get('rlimit', 30), timeout=ucfg.get('timeout', 600))
    res['checker_cmd'] = r['cmd']
    res['wall_s'] = r['wall_s']
    res['verified_fns'] = r['verified']
    res['verifier_output'] = r['rendered']
    if r['timed_out']:
        res.update(status='undecided', reason='verus wall timeout')
        return res
    if r['compile_errors'] or r['verified'] is None:
        res.update(status='undecided', reason='unit does not compile under Verus (construct outside the subset or lost anchor): ' +
                   '; '.join(r['compile_errors'][:3]) + ('' if r['verified'] is not None else ' | ' + r['raw_tail'][-600:]))
        return res
    named_all = [f'{uname}::{fn}::[{lab}]' for fn, lab in census['labels']]
    failed = []
    undecided = []
    for d in r['diags']:
        name = verus.obligation_name(uname, d)
        d['name'] = name
        if d['kind'] == 'rlimit':
            undecided.append(d)
        elif d['kind'] in verus.TOP or (d['kind'] == 'invariant' and d.get('label')):
            # a labelled loop invariant is the inductive form of a postcondition: top-level
            failed.append(d)
        else:
            d['aux'] = True
            failed.append(d)
    res['failed'] = failed
    res['rlimit'] = undecided
    n_top_failed = len({d['name'] for d in failed})
    total = census['labelled'] + census['auxiliary'] + census['implicit_safety']
    res['n_obligations'] = total
    res['n_discharged'] = max(total - n_top_failed - len(undecided), 0)
    res['obligation_names'] = named_all
    exp = ucfg.get('expect_verified')
    if not failed and not undecided:
        if exp is not None and r['verified'] != exp:
            res.update(status='undecided', reason=f'vacuity guard 1: Verus verified {r["verified"]} functions, unit declares {exp}')
            return res
        if r['errors'] != 0:
            res.update(status='undecided', reason=f'verus reported {r["errors"]} errors but none could be mapped')
            return res
    if undecided and not failed:
        res.update(status='undecided', reason='resource limit exceeded in ' + ', '.join(d['fn'] for d in undecided))
    # canaries (vacuity guard 3): deliberate edits of the *generated unit text* that must make a named obligation fail
    if not failed and not undecided and ucfg.get('canaries') and (tier == 'thorough' or ucfg.get('canaries_in_quick', True)):
        res['canaries'] = run_canaries(uname, ucfg, text)
        dead = [c for c in res['canaries'] if c['killed'] is False]
        if dead:
            res.update(status='undecided', reason='vacuity guard 3: canary edit(s) not detected: ' + ', '.join(c['name'] for c in dead))
    return res


def run_canaries(uname, ucfg, text):
    out = []

    def one(c):
        t2, n = re.subn(c['sub'][0], c['sub'][1], text, count=1, flags=re.S)
        if n != 1:
            return dict(name=c['name'], killed=None, skipped=True, why='pattern not found in the generated unit (the code changed shape): canary not applicable on this tree')
        p = os.path.join(BUILD, 'units', uname + '__canary_' + c['name'] + '.rs')
        open(p, 'w').write(t2)
        r = verus.run(p, rlimit=ucfg.get('rlimit', 30), threads=2, timeout=ucfg.get('timeout', 600))
        labels = {d.get('label') for d in r['diags']} | {d['kind'] for d in r['diags']}
        want = set(c['expect'])
        killed = bool(want & labels) and not r['compile_errors']
        try:
            os.remove(p)
        except OSError:
            pass
        return dict(name=c['name'], killed=killed, failed_labels=sorted(x for x in labels if x), expect=c['expect'],
                    why='' if killed else ('compile error: ' + '; '.join(r['compile_errors'][:2]) if r['compile_errors'] else 'no expected obligation failed'))
    with cf.ThreadPoolExecutor(max_workers=8) as ex:
        out = list(ex.map(one, ucfg['canaries']))
    return out


def check_property(pid, tier, seed):
    t0 = time.time()
    pcfg = registry.PROPERTIES[pid]
    known, fixed = load_known()
    os.makedirs(os.path.join(VERIF, 'evidence'), exist_ok=True)
    os.makedirs(os.path.join(BUILD, 'replay'), exist_ok=True)
    extract.reset_cache()
    units = [(u, registry.UNITS[u]) for u in pcfg['units'] if tier == 'thorough' or registry.UNITS[u].get('tier', 'quick') == 'quick']
    if os.environ.get('VF_DEV_ONLY_UNITS'):
        # development aid only (never set by a registered command): restrict the run to some units, skip run-time evaluation, write no evidence
        only = os.environ['VF_DEV_ONLY_UNITS'].split(',')
        units = [(u, c) for (u, c) in units if u in only]
        pcfg = dict(pcfg, dynamic_assumptions=[], dynamic_contracts=[], replay=False)
    results = []
    # native replay binary: needed for dynamic assumption checks and witness search
    replay_info = None
    need_replay = pcfg.get('replay', True)
    fut_replay = None
    pool = cf.ThreadPoolExecutor(max_workers=pcfg.get('parallel_units', 4))
    if need_replay:
        fut_replay = pool.submit(build_replay)
    futs = []
    kani_units = [(u, c) for (u, c) in units if c['backend'] == 'kani']
    for (u, c) in units:
        if c['backend'] == 'verus':
            futs.append(pool.submit(run_verus_unit, u, c, tier))
    for f in futs:
        results.append(f.result())
    for (u, c) in units:
        if c['backend'] == 'callsite':
            results.append(callsite.run_unit(u, c, REPO))
    for (u, c) in kani_units:
        results.append(kani.run_unit(u, c, tier, REPO, VERIF, BUILD, log))
    if fut_replay:
        replay_info = fut_replay.result()
        if not replay_info['ok']:
            log('replay binary failed to build:\n' + replay_info['out'])
    pool.shutdown()

    # dynamic checks of stated assumptions about external code
    dyn = []
    for a in pcfg.get('dynamic_assumptions', []):
        if a.get('kind') == 'generated-glue':
            g = witness.generated_glue(REPO, BUILD, log)
            dyn.append(dict(id=a['id'], text=a['text'], **g))
            continue
        if replay_info and replay_info['ok']:
            dyn.append(witness.run_assumption(a, replay_info['bin'], tier))
        else:
            dyn.append(dict(id=a['id'], status='not-run', detail='replay binary unavailable'))

    # contracts of functions outside both verifiers' reach, evaluated at run time on the real code over enumerated inputs
    # (runtime assertion checking of the contract; never counted as proved, but a concrete failing input is a violation)
    dyn_contracts = []
    for c in pcfg.get('dynamic_contracts', []):
        if not (replay_info and replay_info['ok']):
            dyn_contracts.append(dict(id=c['id'], status='not-run'))
            continue
        if c.get('kind') == 'cli-truncation':
            d = witness.cli_search('truncation', REPO, BUILD, log)
            if d.get('found'):
                dyn_contracts.append(dict(id=c['id'], status='violated', input=d.get('input'), clause=d.get('clause'), detail=d.get('detail'),
                                          obligation=c['obligation'], replay='@cli-truncation', text=c['text'], tried=d.get('tried')))
            elif d.get('tried'):
                dyn_contracts.append(dict(id=c['id'], status='held-on-enumerated-inputs', tried=d.get('tried'), text=c['text']))
            else:
                dyn_contracts.append(dict(id=c['id'], status='not-run', detail=d.get('detail')))
            continue
        if c.get('kind') == 'cli-front':
            d, err = witness.cli_front_end(REPO, BUILD, log)
            if d is None:
                dyn_contracts.append(dict(id=c['id'], status='not-run', detail=str(err)))
                continue
            if not d['failures']:
                dyn_contracts.append(dict(id=c['id'], status='held-on-enumerated-inputs', tried=d.get('tried'), text=c['text']))
            for f in d['failures']:
                dyn_contracts.append(dict(id=c['id'], status='violated', input=f['input'], clause=f['clause'], detail=f['detail'],
                                          obligation=c['obligation'], replay=c.get('replay'), text=c['text'], tried=d.get('tried')))
            continue
        if c.get('kind') == 'cli-signature':
            d, err = witness.cli_signature_mutations(REPO, BUILD, log, tier)
            if d is not None and d.get('broken'):
                dyn_contracts.append(dict(id=c['id'], status='not-run', detail=d.get('detail')))
                continue
        elif c.get('kind') == 'cli-numeric':
            d, err = witness.cli_numeric_ops(REPO, BUILD, log)
            if d is not None and d.get('broken'):
                dyn_contracts.append(dict(id=c['id'], status='not-run', detail=d.get('detail')))
                continue
        elif c.get('kind') == 'cli-literals':
            d, err = witness.cli_literals(REPO, BUILD, log)
            if d is not None and d.get('broken'):
                dyn_contracts.append(dict(id=c['id'], status='not-run', detail=d.get('detail')))
                continue
        else:
            args = c['cmd_thorough'] if tier == 'thorough' and c.get('cmd_thorough') else c['cmd']
            d, err = witness._run([replay_info['bin']] + args)
        if d is None:
            dyn_contracts.append(dict(id=c['id'], status='not-run', detail=str(err)))
        elif d.get('found'):
            dyn_contracts.append(dict(id=c['id'], status='violated', input=d.get('input'), clause=d.get('clause'), detail=d.get('detail'),
                                      obligation=c['obligation'], replay=c.get('replay'), text=c['text'], tried=d.get('tried')))
        else:
            dyn_contracts.append(dict(id=c['id'], status='held-on-enumerated-inputs', tried=d.get('tried'), text=c['text']))

    violations = []   # (obligation dict, unit result)
    undecided = []
    for r in results:
        if r['status'] == 'undecided':
            undecided.append(f"{r['unit']}: {r.get('reason')}")
        for d in r.get('failed', []):
            violations.append((d, r))
    for a in dyn:
        if a['status'] == 'violated':
            undecided.append(f"assumption {a['id']} does not hold on the real code: {a['detail']}")

    lines = []
    exit_code = 0
    n_viol = 0
    seen = set()
    by_name = {}
    for d, r in violations:
        by_name.setdefault(d['name'], (d, r))
    top_failed = {n: v for n, v in by_name.items() if not v[0].get('aux')}
    aux_failed = {n: v for n, v in by_name.items() if v[0].get('aux')}
    # witness search: one per unit with failing obligations
    wit_cache = {}

    def wit_for(r, d):
        key = (r['unit'], d.get('fn'), tuple(d.get('witness_args') or []))
        if key not in wit_cache:
            if replay_info and replay_info['ok']:
                wit_cache[key] = witness.search(r['unit'], registry.UNITS[r['unit']], d, replay_info['bin'], tier, REPO, BUILD, log)
            else:
                wit_cache[key] = dict(found=False, detail='replay binary unavailable')
        return wit_cache[key]

    for name, (d, r) in sorted(top_failed.items()):
        w = wit_for(r, d)
        rp = write_replay(pid, name, d, r, w)
        k = match_known(known, pid, name, w)
        if k:
            lines.append(f'KNOWN-FINDING: property={pid} {k.get("what", name)} obligation={name} input={json.dumps(w.get("input"))}')
            continue
        n_viol += 1
        exit_code = 1
        if w.get('found'):
            lines.append(f'VIOLATION property={pid} replay={rp} obligation={name} input={json.dumps(w.get("input"))}')
        else:
            lines.append(f'VIOLATION property={pid} replay={rp} obligation={name} no-failing-input-found')
    known_hits = {}
    for c in dyn_contracts:
        if c['status'] != 'violated':
            continue
        name = f"{c['obligation']}[{c.get('clause')}]"
        if name in top_failed:
            continue
        seen_dyn = locals().setdefault('_seen_dyn', set())
        if (name, c.get('input')) in seen_dyn:
            continue
        seen_dyn.add((name, c.get('input')))
        w = dict(found=True, input=c['input'], clause=c.get('clause'), detail=c.get('detail'),
                 replay_cmd=([c['replay'], c['input']] if c.get('replay') else None))
        rp = write_replay(pid, name, dict(kind='dynamic-contract', fn=c['id'], message=c['text'], site_text='', clause_text=''),
                          dict(unit='dynamic:' + c['id'], verifier_output=[]), w)
        k = match_known(known, pid, name, w)
        if k:
            kn = known_hits.setdefault(k['_line'], dict(k=k, name=name, inputs=[]))
            kn['inputs'].append(w.get('input'))
            continue
        n_viol += 1
        exit_code = 1
        lines.append(f'VIOLATION property={pid} replay={rp} obligation={name} input={json.dumps(c["input"])} (contract evaluated at run time on the real code)')
    for kl, kn in known_hits.items():
        lines.append(f'KNOWN-FINDING: property={pid} {kn["k"].get("what", kn["name"])} obligation={kn["name"]} inputs={len(kn["inputs"])} first={json.dumps(kn["inputs"][0])}')
    if aux_failed and not top_failed:
        # the proof no longer goes through at an auxiliary obligation (loop invariant, lemma, assert): undecided
        # unless the dynamic contract evaluation exhibits a concrete failing input on the real code.
        for name, (d, r) in sorted(aux_failed.items()):
            w = wit_for(r, d)
            if w.get('found'):
                oname = f"{r['unit']}::{d['fn']}::ensures[{w.get('clause', '?')}]"
                rp = write_replay(pid, oname, d, r, w)
                k = match_known(known, pid, oname, w)
                if k:
                    lines.append(f'KNOWN-FINDING: property={pid} {k.get("what", oname)} obligation={oname} input={json.dumps(w.get("input"))}')
                    continue
                n_viol += 1
                exit_code = 1
                lines.append(f'VIOLATION property={pid} replay={rp} obligation={oname} input={json.dumps(w.get("input"))} (via auxiliary obligation {name})')
                break
            else:
                undecided.append(f'auxiliary obligation {name} not discharged and no failing input found: proof needs attention, property undecided')
    if exit_code == 0 and undecided:
        exit_code = 2

    # evidence
    n_obl = sum(r.get('n_obligations', 0) for r in results)
    n_dis = sum(r.get('n_discharged', 0) for r in results)
    fns = []
    for r in results:
        for it in r.get('functions', []):
            fns.append(f"{it['source']} :: {it['selector']} [{it['kind']}, sha256/16={it['sha']}] via {r['backend']} unit {r['unit']}")
    trusted = list(pcfg.get('trusted_base', []))
    for r in results:
        trusted += r.get('assumptions', [])
    samples = []
    for r in results:
        samples += r.get('obligation_names', [])[:12]
    ev = dict(
        property_id=pid, tier=tier, seed=seed, level='proof',
        coverage=dict(
            obligations=n_obl, discharged=n_dis,
            checker_cmd='; '.join(sorted({r.get('checker_cmd', '') for r in results if r.get('checker_cmd')}))[:4000],
            trusted_base=trusted,
            samples=samples[:60],
            rule='obligations = labelled contract clauses ([..] requires/ensures) + auxiliary proof obligations (loop invariants, decreases, '
                 'lemmas, asserts) + implicit safety sites in extracted bodies (panic!/unreachable!/unwrap/expect, compound arithmetic, indexing) for Verus units; '
                 'one per harness assertion set for Kani units; counted from the generated unit on this run',
            units=[dict(unit=r['unit'], backend=r['backend'], status=r['status'], wall_s=r.get('wall_s'), verified_fns=r.get('verified_fns'),
                        census=r.get('census'), obligations=r.get('n_obligations'), discharged=r.get('n_discharged'),
                        canaries=r.get('canaries'), bounded=r.get('bounded'), harnesses=r.get('harnesses'),
                        reason=r.get('reason'), rewrites=r.get('rewrites')) for r in results],
            functions_under_contract=fns,
            extraction_rules=extract.RULES,
            dynamic_assumption_checks=dyn,
            dynamic_contract_evaluation=dyn_contracts,
            bounded=[b for r in results for b in (r.get('bounded') or [])],
            not_covered=pcfg.get('not_covered', []),
            failed_obligations=sorted(by_name.keys()),
            undecided=undecided,
            known_findings_file=[k['_line'] for k in known if k.get('property') == pid],
            fixed=[f for f in fixed if f'property={pid}' in f],
            exhaustive=False,
        ),
        assumptions=trusted + pcfg.get('assumptions', []),
        wall_s=round(time.time() - t0, 1),
        violations=n_viol,
    )
    if not os.environ.get('VF_DEV_ONLY_UNITS'):
        json.dump(ev, open(os.path.join(VERIF, 'evidence', f'{pid}.json'), 'w'), indent=1)
    else:
        for r in results:
            print('DEV', r['unit'], r['status'], r.get('reason'), 'verified_fns=', r.get('verified_fns'), 'canaries=', [(c['name'], c.get('killed', c.get('status'))) for c in (r.get('canaries') or [])])
    for l in lines:
        print(l)
    for u in undecided:
        print(f'UNDECIDED property={pid} {u}')
    status = {0: 'HELD', 1: 'VIOLATED', 2: 'UNDECIDED'}[exit_code]
    print(f'{status} property={pid} tier={tier} obligations={n_obl} discharged={n_dis} units={len(results)} wall={ev["wall_s"]}s')
    return exit_code


def match_known(known, pid, name, w):
    for k in known:
        if k.get('property') != pid or k.get('obligation') != name:
            continue
        if 'input' in k:
            if w.get('found') and w.get('input') == k['input']:
                return k
            continue
        if 'input_re' in k:
            if w.get('found') and isinstance(w.get('input'), str) and re.search(k['input_re'], w['input']):
                return k
            continue
        return k
    return None


def write_replay(pid, name, d, r, w):
    safe = re.sub(r'[^A-Za-z0-9_.\-]+', '_', name)[:120]
    p = os.path.join(BUILD, 'replay', f'{pid}.{safe}.json')
    json.dump(dict(property=pid, obligation=name, kind=d.get('kind'), function=d.get('fn'), unit=r['unit'],
                   verifier_message=d.get('message'), site=d.get('site_text'), clause=d.get('clause_text'),
                   verifier_output=r.get('verifier_output', [])[:20], witness=w,
                   replay_cmd=w.get('replay_cmd'), note='no-failing-input-found' if not w.get('found') else 'input replayed on the real code'),
              open(p, 'w'), indent=1)
    return p


def replay_file(pid, path):
    d = json.load(open(path))
    w = d.get('witness') or {}
    if not w.get('replay_cmd'):
        print(f'replay file names obligation {d.get("obligation")}; no concrete input recorded ({d.get("note")})')
        print('\n'.join(d.get('verifier_output', [])[:5]))
        return 1
    if w['replay_cmd'][0] == '@cli-truncation':
        binp = witness.build_cli(REPO, BUILD, log)
        if not binp:
            return 2
        fails, detail = witness.cli_check_one(binp, BUILD, 'truncation', w['replay_cmd'][1])
        print(json.dumps(dict(fails=fails, input=w['replay_cmd'][1], detail=detail)))
        if fails:
            print(f'VIOLATION property={pid} replay={path} obligation={d.get("obligation")}')
        return 1 if fails else 0
    if w['replay_cmd'][0] == '@cli-front':
        dd, err = witness.cli_front_end(REPO, BUILD, log, only=w['replay_cmd'][1])
        print(json.dumps(dd))
        if dd and dd.get('found'):
            print(f'VIOLATION property={pid} replay={path} obligation={d.get("obligation")}')
            return 1
        return 0
    if w['replay_cmd'][0] == '@cli-signature':
        dd, err = witness.cli_signature_mutations(REPO, BUILD, log, 'thorough', only=w['replay_cmd'][1])
        print(json.dumps(dd))
        if dd and dd.get('found'):
            print(f'VIOLATION property={pid} replay={path} obligation={d.get("obligation")}')
            return 1
        return 0
    if w['replay_cmd'][0] == '@cli-numeric':
        dd, err = witness.cli_numeric_ops(REPO, BUILD, log, only=w['replay_cmd'][1])
        print(json.dumps(dd))
        if dd and dd.get('found'):
            print(f'VIOLATION property={pid} replay={path} obligation={d.get("obligation")}')
            return 1
        return 0
    if w['replay_cmd'][0] == '@cli-literals':
        dd, err = witness.cli_literals(REPO, BUILD, log, only=w['replay_cmd'][1])
        print(json.dumps(dd))
        if dd and dd.get('found'):
            print(f'VIOLATION property={pid} replay={path} obligation={d.get("obligation")}')
            return 1
        return 0
    if w['replay_cmd'][0] == '@cli':
        binp = witness.build_cli(REPO, BUILD, log)
        if not binp:
            return 2
        fails, detail = witness.cli_check_one(binp, BUILD, w['replay_cmd'][1], w['replay_cmd'][2])
        print(json.dumps(dict(fails=fails, input=w['replay_cmd'][2], detail=detail)))
        if fails:
            print(f'VIOLATION property={pid} replay={path} obligation={d.get("obligation")}')
        return 1 if fails else 0
    info = build_replay()
    if not info['ok']:
        print(info['out'])
        return 2
    cmd = [info['bin']] + w['replay_cmd']
    p = subprocess.run(cmd, stdout=subprocess.PIPE, text=True)
    print(p.stdout.strip())
    if p.returncode == 1:
        print(f'VIOLATION property={pid} replay={path} obligation={d.get("obligation")}')
    return p.returncode


def main(argv):
    import argparse
    ap = argparse.ArgumentParser()
    ap.add_argument('property')
    ap.add_argument('--tier', default=os.environ.get('VERIF_TIER', 'quick'), choices=['quick', 'thorough'])
    ap.add_argument('--replay')
    a = ap.parse_args(argv)
    seed = int(os.environ.get('VERIF_SEED', '0') or 0)
    if a.property not in registry.PROPERTIES:
        print(f'property {a.property} is not claimed (see MANIFEST.json not_applicable)')
        return 2
    if a.replay:
        return replay_file(a.property, a.replay)
    return check_property(a.property, a.tier, seed)
