"""Call-site preconditions decided syntactically by the scanner (a `requires` whose only dischargeable form is textual identity).

Unit kind `callsite`: every call `<callee-regex>(args)` found in the listed production files must have argument k equal (after
whitespace normalisation) to a template over the other arguments, e.g. for LALRPOP's
    SourceUnitParser::new().parse(source, &location, &mut parser, Lexer::new(source))
the 4th argument must be `Lexer::new(<arg 1>)` (possibly through one `let x = Lexer::new(<arg 1>);` in the same function).
This is the precondition of the contract proved in unit c11_lexer: the token stream handed to the parser is the verified
lexer over the *whole* source text that is being checked. A call site that does not have this form is an obligation that is not
discharged (it held on the unchanged tree); the driver then searches a concrete failing input through the real CLI.
"""
import hashlib
import os
import re

from . import rsscan
from .extract import _split_top


def _norm(s):
    return re.sub(r'\s+', '', s)


def run_unit(uname, ucfg, repo):
    res = dict(unit=uname, backend='callsite', status='ok', failed=[], functions=[], assumptions=[a['id'] + ': ' + a['text'] for a in ucfg.get('assumptions', [])],
               obligation_names=[], checker_cmd='vf/callsite.py (scanner, textual identity of call arguments)')
    n = 0
    found_files = set()
    for root in ucfg['roots']:
        base = os.path.join(repo, root)
        for dirpath, dirs, files in os.walk(base):
            dirs[:] = [d for d in dirs if d not in ('target', '.git', 'tests')]
            for fn in files:
                if not fn.endswith('.rs') or fn in ucfg.get('exclude_files', []):
                    continue
                p = os.path.join(dirpath, fn)
                src = open(p, encoding='utf-8').read()
                if not re.search(ucfg['callee'], src):
                    continue
                msk = rsscan.mask(src)
                # drop #[cfg(test)] modules
                for m in re.finditer(ucfg['callee'], msk):
                    # skip test modules: look for `#[cfg(test)]` module enclosing -- approximate by file-level check
                    line_start = msk.rfind('\n', 0, m.start()) + 1
                    k = msk.find('(', m.end() - 1)
                    if k < 0:
                        continue
                    close = rsscan.match_close(msk, k)
                    args = [a.strip() for a in _split_top(src[k + 1:close]) if a.strip()]
                    rel = os.path.relpath(p, repo)
                    if _in_test_module(msk, m.start()):
                        continue
                    n += 1
                    found_files.add(rel)
                    oname = f"{uname}::{rel}::requires@callsite[ENTRY]"
                    res['obligation_names'].append(oname)
                    res['functions'].append(dict(kind='call-site', source=rel, selector=f'call at byte {m.start()}', sha=hashlib.sha256(src[m.start():close + 1].encode()).hexdigest()[:16], name='parse'))
                    ok, why = _check(ucfg, args, src, msk, m.start())
                    after = msk[close + 1:close + 40].lstrip()
                    if not ok:
                        res['failed'].append(dict(kind='requires@callsite', fn=rel, label='ENTRY', name=oname, aux=False,
                                                  message='call-site precondition not discharged: ' + why, site_text=' '.join(src[m.start():close + 1].split())[:200],
                                                  clause_text=ucfg['requires_text']))
    # grammar-level precondition of the driver contract (unit c11_driver requires `!definition.recovers()`): the grammar names no
    # error-recovery symbol `!` in any production, so the generated `uses_error_recovery()` is false
    g = ucfg.get('grammar_no_recovery')
    if g:
        gp = os.path.join(repo, g)
        oname = f"{uname}::{g}::requires@callsite[NO-RECOVERY]"
        if not os.path.exists(gp):
            res['status'] = 'undecided'
            res['reason'] = f'lost anchor: {g}'
        else:
            gsrc = open(gp, encoding='utf-8').read()
            gm = rsscan.mask(gsrc)
            n += 1
            res['obligation_names'].append(oname)
            res['functions'].append(dict(kind='grammar', source=g, selector='every production (no `!` recovery symbol)', sha=hashlib.sha256(gsrc.encode()).hexdigest()[:16], name='grammar'))
            hits = [x for x in re.finditer(r'(?<!\w)!(?!=)(?!\s*[\w(\[{!&*\-"\'])', gm)]
            if hits:
                h = hits[0]
                line = gsrc.count('\n', 0, h.start()) + 1
                res['failed'].append(dict(kind='requires@callsite', fn=g, label='NO-RECOVERY', name=oname, aux=False,
                                          message=f'the grammar uses the error-recovery symbol `!` (line {line}): the driver may then skip tokens and still accept; '
                                                  'the precondition `!definition.recovers()` of [PARSE-ACCEPT] (unit c11_driver) does not hold',
                                          site_text=' '.join(gsrc[max(0, h.start() - 60):h.end() + 20].split()), clause_text=ucfg.get('no_recovery_text', '')))
    res['n_obligations'] = n
    res['n_discharged'] = n - len(res['failed'])
    exp = ucfg.get('expect_sites')
    if exp is not None and n < exp:
        res['status'] = 'undecided'
        res['reason'] = f'vacuity guard 1: found {n} call sites, unit declares at least {exp} (lost anchor)'
    return res


def _in_test_module(msk, pos):
    # is `pos` inside a `mod tests {..}` / `#[cfg(test)] mod x {..}` block?
    for m in re.finditer(r'#\[cfg\(test\)\]\s*(?:pub\s+)?mod\s+\w+\s*\{', msk):
        o = m.end() - 1
        try:
            c = rsscan.match_close(msk, o)
        except Exception:
            continue
        if o < pos < c:
            return True
    return False


def _check(ucfg, args, src, msk, pos):
    k = ucfg['arg_index']
    if len(args) <= k:
        return False, f'call has {len(args)} arguments'
    tmpl = ucfg['arg_template']          # e.g. "Lexer::new({0})"
    want = _norm(tmpl.format(*[a for a in args]))
    got = _norm(args[k])
    got_short = re.sub(r'^(?:\w+::)*(?=Lexer::new)', '', got)
    if got_short == want:
        return True, ''
    # one level of `let x = <template>;` in the enclosing function
    if re.fullmatch(r'[a-z_][a-z0-9_]*', got):
        fstart = msk.rfind('fn ', 0, pos)
        seg = src[fstart:pos]
        lm = re.findall(r'let\s+(?:mut\s+)?' + re.escape(got) + r'\s*=\s*([^;]+);', seg)
        if len(lm) == 1 and re.sub(r'^(?:\w+::)*(?=Lexer::new)', '', _norm(lm[0])) == want:
            return True, ''
    return False, f'argument {k + 1} is `{args[k]}`, the contract needs `{tmpl.format(*args)}`'
