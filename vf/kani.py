"""Kani back end (filled in below)."""


def run_unit(uname, ucfg, tier, repo, verif, build, log):
    raise NotImplementedError
