"""Kani back end: build a harness crate (path-dependencies on the real crates in /repo) and run its harnesses.

The harness crate is copied to /verif/build/kani/<unit>/ on every run, Cargo.lock is taken from /repo, files named
`*.tpl` are expanded by the extractor (private functions / macros of /repo copied byte for byte), and all harnesses
declared in unit.json are run with `cargo kani -j`. A harness that is declared but does not report is an
infrastructure failure (exit 2), a harness that fails is a failed obligation.
"""
import json
import os
import re
import shutil
import subprocess
import time

from . import extract, rsscan


def _prepare(uname, ucfg, repo, verif, build):
    src = os.path.join(verif, ucfg['crate'])
    dst = os.path.join(build, 'kani', uname)
    if os.path.exists(dst):
        shutil.rmtree(dst)
    shutil.copytree(src, dst, ignore=shutil.ignore_patterns('target', 'Cargo.lock'))
    lock = os.path.join(repo, 'Cargo.lock')
    if os.path.exists(lock):
        shutil.copy(lock, os.path.join(dst, 'Cargo.lock'))
    if repo != '/repo':
        p = os.path.join(dst, 'Cargo.toml')
        open(p, 'w').write(open(p).read().replace('"/repo/', '"' + repo.rstrip('/') + '/'))
    items = []
    rewrites = []
    for root, _, files in os.walk(dst):
        for f in files:
            if f.endswith('.tpl'):
                tp = os.path.join(root, f)
                text, ex = extract.build_unit(repo, open(tp).read())
                open(tp[:-4], 'w').write(text)
                os.remove(tp)
                items += ex.items
                rewrites += ex.rewrites
    gen = ucfg.get('generator')
    if gen:
        from . import generators
        more = getattr(generators, gen)(repo, dst, ucfg)
        items += more.get('items', [])
        ucfg = dict(ucfg)
        ucfg.setdefault('_generated_harnesses', {}).update(more.get('harnesses', {}))
        _prepare.generated = more.get('harnesses', {})
    else:
        _prepare.generated = {}
    return dst, items, rewrites


def parse_log(out):
    """-> {harness: [failed check descriptions]} from terse `cargo kani -j` output (blocks are tagged by thread)."""
    cur = {}
    active = None
    detail = {}
    for line in out.splitlines():
        line = re.sub(r'\x1b\[[0-9;]*m', '', line)
        m = re.match(r'Thread (\d+): Checking harness ([\w:]+)', line)
        if m:
            cur[m.group(1)] = m.group(2)
            continue
        m = re.match(r'Thread (\d+):\s*$', line)
        if m:
            active = cur.get(m.group(1))
            continue
        m = re.match(r'Checking harness ([\w:]+)', line)
        if m:
            active = m.group(1)
            continue
        m = re.match(r'\s*Failed Checks: (.*)', line)
        if m and active:
            detail.setdefault(active, []).append(m.group(1).strip())
            continue
        m = re.match(r'\s*File: "(.*)", line (\d+), in (.*)', line)
        if m and active and detail.get(active):
            detail[active][-1] += f' [{os.path.basename(m.group(1))}:{m.group(2)} in {m.group(3)}]'
    return detail


def parse_json(path):
    """-> {harness: dict(status, total, passed, failed)} from `--export-json`."""
    res = {}
    try:
        d = json.load(open(path))
    except Exception:
        return res
    for e in d.get('error_details', []):
        h = e.get('harness_id')
        if not e.get('has_errors'):
            st = 'success'
        elif e.get('exit_status') == 'timeout':
            st = 'timeout'
        elif e.get('exit_status') in ('out_of_memory', 'oom'):
            st = 'timeout'
        else:
            st = 'failure'
        res[h] = dict(status=st, raw=e)
    for p in d.get('property_details', []):
        h = p.get('harness_id')
        pd = p.get('property_details') or {}
        if h in res:
            res[h].update(total=pd.get('total_properties'), passed=pd.get('passed'), failed=pd.get('failed'), unreachable=pd.get('unreachable'))
    return res


def run_unit(uname, ucfg, tier, repo, verif, build, log):
    t0 = time.time()
    res = dict(unit=uname, backend='kani', status='ok', failed=[], assumptions=[a['id'] + ': ' + a['text'] for a in ucfg.get('assumptions', [])],
               functions=[], bounded=[], harnesses={})
    try:
        dst, items, rewrites = _prepare(uname, ucfg, repo, verif, build)
    except (extract.ExtractError, extract.ScanError) as e:
        res.update(status='undecided', reason=f'extraction failed: {e}')
        return res
    res['functions'] = items + [dict(kind='api', source=s['source'], selector=s['selector'], sha=_sha_of(repo, s), name=s['selector'])
                                for s in ucfg.get('api_under_contract', [])]
    res['rewrites'] = rewrites
    allh = dict(ucfg['harnesses'])
    if ucfg.get('use_generated_harnesses', True):
        allh.update(getattr(_prepare, 'generated', {}) or {})
    exp = ucfg.get('expect_generated')
    if exp is not None and len(getattr(_prepare, 'generated', {}) or {}) != exp:
        res.update(status='undecided', reason=f'vacuity guard 1: generator produced {len(_prepare.generated)} harnesses, unit declares {exp}')
        return res
    declared = {h: c for h, c in allh.items() if tier == 'thorough' or c.get('tier', 'quick') == 'quick'}
    flags = ucfg.get('flags', ['-Z', 'function-contracts', '-Z', 'stubbing'])
    tdir = os.path.join(build, 'kani-target', ucfg.get('target_key', uname))
    cmd = ['cargo', 'kani'] + flags + ['-Z', 'unstable-options', '--target-dir', tdir, '-j', str(ucfg.get('jobs', 12)),
                                        '--output-format', 'terse', '--harness-timeout', str(ucfg.get('harness_timeout', 300))]
    jpath = os.path.join(build, 'logs', f'kani_{uname}.json')
    os.makedirs(os.path.join(build, 'logs'), exist_ok=True)
    if os.path.exists(jpath):
        os.remove(jpath)
    cmd += ['--export-json', jpath, '--exact']
    for h in declared:
        cmd += ['--harness', h]
    env = dict(os.environ, CARGO_NET_OFFLINE='true', CARGO_TERM_COLOR='never', RUST_BACKTRACE='0')
    try:
        p = subprocess.run(cmd, cwd=dst, env=env, stdout=subprocess.PIPE, stderr=subprocess.STDOUT, text=True, timeout=ucfg.get('timeout', 3000))
        out = p.stdout
    except subprocess.TimeoutExpired as e:
        out = e.stdout.decode() if isinstance(e.stdout, bytes) else (e.stdout or '')
        out += '\n<<wall timeout>>'
    os.makedirs(os.path.join(build, 'logs'), exist_ok=True)
    open(os.path.join(build, 'logs', f'kani_{uname}.log'), 'w').write(out)
    _reap_solvers()
    res['checker_cmd'] = ' '.join(cmd[:cmd.index('--harness')] if '--harness' in cmd else cmd) + ' --harness <each declared harness>'
    res['wall_s'] = round(time.time() - t0, 1)
    # dependency closure: a change may have introduced a private helper function that the extracted text now calls. If the
    # harness crate fails with "cannot find function `f`", copy `fn f` from the source files this unit already extracts from
    # (plain text, byte for byte) and rebuild -- at most three rounds.
    rounds = 0
    while rounds < 3 and ('error[E0425]' in out or 'error[E0433]' in out or 'cannot find macro' in out or 'error[E0599]' in out):
        missing = sorted(set(re.findall(r'cannot find function `(\w+)` in this scope', out)))
        missing_assoc = sorted(set(re.findall(r'no (?:function or associated item|associated function or constant|associated item|method) named `(\w+)` found for (?:struct|enum) `(?:\w+::)*(\w+)`', out)))
        missing_types = sorted(set(re.findall(r'(?:cannot find type|use of undeclared type) `(\w+)`', out)))
        missing_macros = sorted(set(re.findall(r'cannot find macro `(\w+)` in this scope', out)))
        if not missing and not missing_types and not missing_macros and not missing_assoc:
            break
        added = []
        # a missing private ASSOCIATED function of a type the unit already has (a change added a helper to `impl T`): copy `fn name` from
        # the source's `impl T` into a further `impl T { }` block
        srcs_a = sorted({it['source'] for it in items if it.get('source', '').endswith('.rs')})
        gen_a = [os.path.join(r_, f_) for r_, _, fs_ in os.walk(os.path.join(dst, 'src')) for f_ in fs_ if f_ == 'extracted.rs']
        for (fname, tname) in (missing_assoc if gen_a else []):
            for rel in srcs_a:
                try:
                    ex2 = extract.Extracted()
                    text = extract.extract_fn(repo, f'{rel} :: impl {tname} :: fn {fname}\n  plain', '', ex2)
                except (extract.ExtractError, extract.ScanError):
                    continue
                open(gen_a[0], 'a').write(f'\n// helper pulled in by the dependency closure (called by extracted text)\nimpl {tname} {{\n{text}\n}}\n')
                items += ex2.items
                rewrites.append(f'dependency closure: copied private helper `{tname}::{fname}` from {rel}')
                added.append(f'{tname}::{fname}')
                break
        # a missing private helper MACRO: copy its macro_rules! definition to the FRONT of the generated file (textual scoping)
        srcs_m = sorted({it['source'] for it in items if it.get('source', '').endswith('.rs')})
        gen_m = [os.path.join(r_, f_) for r_, _, fs_ in os.walk(os.path.join(dst, 'src')) for f_ in fs_ if f_ == 'extracted.rs']
        for mname in (missing_macros if gen_m else []):
            for rel in srcs_m:
                try:
                    ex2 = extract.Extracted()
                    text = extract.extract_macro(repo, f'{rel} :: macro {mname}', ex2)
                except (extract.ExtractError, extract.ScanError):
                    continue
                cur = open(gen_m[0]).read()
                # after the leading inner attributes / comments
                k = 0
                for line in cur.splitlines(keepends=True):
                    if line.startswith('//') or line.startswith('#!') or not line.strip():
                        k += len(line)
                    else:
                        break
                open(gen_m[0], 'w').write(cur[:k] + '// helper macro pulled in by the dependency closure (used by extracted text)\n' + text + '\n' + cur[k:])
                items += ex2.items
                rewrites.append(f'dependency closure: copied private helper `macro_rules! {mname}` from {rel}')
                added.append(mname)
                break
        # a missing private helper TYPE (unit struct / enum used as a namespace): copy its definition and its inherent impl blocks
        srcs_t = sorted({it['source'] for it in items if it.get('source', '').endswith('.rs')})
        gen_t = [os.path.join(r_, f_) for r_, _, fs_ in os.walk(os.path.join(dst, 'src')) for f_ in fs_ if f_ == 'extracted.rs']
        for tname in (missing_types if gen_t else []):
            for rel in srcs_t:
                try:
                    rf = rsscan.RustFile(os.path.join(repo, rel))
                    text = None
                    for kw in ('struct', 'enum'):
                        try:
                            _k, _n, a, _h, b = rf.locate([f'{kw} {tname}'])
                            text = rf.src[a:b]
                            break
                        except rsscan.ScanError:
                            continue
                    if text is None:
                        continue
                    try:
                        _k, _n, a, _h, b = rf.locate([f'impl {tname}'])
                        text += '\n' + rf.src[a:b]
                    except rsscan.ScanError:
                        pass
                except OSError:
                    continue
                open(gen_t[0], 'a').write('\n// helper type pulled in by the dependency closure (named by extracted text)\n' + text + '\n')
                items.append(dict(kind='type+impl', source=rel, selector=f'{tname} (definition and inherent impl)', sha=extract._sha(text), name=tname, loc=text.count('\n') + 1))
                rewrites.append(f'dependency closure: copied private helper type `{tname}` with its inherent impl from {rel}')
                added.append(tname)
                break
        srcs = sorted({it['source'] for it in items if it.get('source', '').endswith('.rs')})
        gen_files = [os.path.join(r_, f_) for r_, _, fs_ in os.walk(os.path.join(dst, 'src')) for f_ in fs_ if f_ == 'extracted.rs']
        if not gen_files:
            break
        for name in missing:
            for rel in srcs:
                try:
                    ex2 = extract.Extracted()
                    text = extract.extract_fn(repo, f'{rel} :: fn {name}\n  plain', '', ex2)
                except (extract.ExtractError, extract.ScanError):
                    continue
                open(gen_files[0], 'a').write('\n// helper pulled in by the dependency closure (called by extracted text)\n' + text + '\n')
                items += ex2.items
                rewrites.append(f'dependency closure: copied private helper `fn {name}` from {rel}')
                added.append(name)
                break
        if not added:
            break
        rounds += 1
        try:
            p = subprocess.run(cmd, cwd=dst, env=env, stdout=subprocess.PIPE, stderr=subprocess.STDOUT, text=True, timeout=ucfg.get('timeout', 3000))
            out = p.stdout
        except subprocess.TimeoutExpired as e:
            out = (e.stdout.decode() if isinstance(e.stdout, bytes) else (e.stdout or '')) + '\n<<wall timeout>>'
        open(os.path.join(build, 'logs', f'kani_{uname}.log'), 'w').write(out)
        _reap_solvers()
    res['functions'] = items + [dict(kind='api', source=s_['source'], selector=s_['selector'], sha=_sha_of(repo, s_), name=s_['selector'])
                                for s_ in ucfg.get('api_under_contract', [])]
    res['rewrites'] = rewrites
    if 'error: could not compile' in out or 'Failed to execute cargo' in out or 'error[E' in out:
        errs = [l for l in out.splitlines() if l.startswith('error')][:4]
        res.update(status='undecided', reason='harness crate does not compile against the current tree (API changed / lost anchor): ' + ' | '.join(errs))
        return res
    detail = parse_log(out)
    jres = parse_json(jpath)
    n_obl = 0
    n_dis = 0
    names = []
    n_props = 0
    for h, c in declared.items():
        short = h.split('::')[-1]
        jr = jres.get(h)
        got = jr['status'] if jr else None
        if jr and jr.get('total'):
            n_props += jr['total']
        oname = f"{uname}::{c.get('fn', short)}::{c.get('kind', 'ensures')}[{c.get('label', short)}]"
        names.append(oname)
        n_obl += 1
        res['harnesses'][h] = got or 'no-result'
        if c.get('bounded'):
            res['bounded'].append(f'{oname}: {c["bounded"]}')
        if got == 'success':
            n_dis += 1
        elif got == 'failure':
            dl = detail.get(h) or []
            res['failed'].append(dict(kind=c.get('kind', 'ensures'), fn=c.get('fn', short), label=c.get('label', short), name=oname,
                                      message='Kani: verification failed: ' + '; '.join(dl[:4]), site_text=h, clause_text=c.get('text', ''),
                                      harness=h, aux=False, witness_args=c.get('witness_args')))
        elif got == 'timeout':
            if c.get('optional'):
                res['bounded'].append(f'{oname}: DROPPED this run (harness exceeded its time limit); not counted as proved')
                n_obl -= 1
                names.pop()
            else:
                res['status'] = 'undecided'
                res['reason'] = (res.get('reason', '') + f' harness {h} timed out;').strip()
        else:
            res['status'] = 'undecided'
            res['reason'] = (res.get('reason', '') + f' harness {h} produced no result (vacuity guard 1);').strip()
    res['cbmc_properties_checked'] = n_props
    res['n_obligations'] = n_obl
    res['n_discharged'] = n_dis
    res['obligation_names'] = names
    res['verifier_output'] = [l for l in out.splitlines() if 'Failed Checks' in l or 'Verification failed' in l][:20]
    return res


def _reap_solvers():
    """A harness that hits its time limit under an SMT solver leaves the solver process running (orphaned, 100% CPU). Kill
    orphaned z3/cvc5 processes working on CBMC's temporary SMT2 problem files."""
    try:
        out = subprocess.run(['ps', '-eo', 'pid,ppid,args'], stdout=subprocess.PIPE, text=True).stdout
        for line in out.splitlines()[1:]:
            parts = line.split(None, 2)
            if len(parts) == 3 and parts[1] == '1' and 'smt2_dec_problem' in parts[2] and re.search(r'\b(z3|cvc5)\b', parts[2]):
                subprocess.run(['kill', '-9', parts[0]])
    except Exception:
        pass


def _sha_of(repo, s):
    import hashlib
    from .rsscan import RustFile, ScanError
    try:
        f = RustFile(os.path.join(repo, s['source']))
        k, n, a, h, e = f.locate([x.strip() for x in s['selector'].split('::')])
        return hashlib.sha256(f.src[a:e].encode()).hexdigest()[:16]
    except Exception as e:
        return 'unlocated'
